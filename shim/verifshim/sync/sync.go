// Package sync replaces the standard library's sync package inside the engine when it
// is built through the verification overlay. Free mode delegates to the real
// primitives; controlled mode turns every blocking operation into a scheduling point.
package sync

import (
	gosync "sync"

	"github.com/thanos-community/promql-engine/verifshim"
)

type Locker = gosync.Locker
type Map = gosync.Map

// Cond is not modelled: a Wait blocks natively (reported as an unsupported construct).
type Cond = gosync.Cond

func NewCond(l Locker) *Cond {
	verifshim.Unsupported("sync.Cond")
	return gosync.NewCond(l)
}

// ---- Mutex

type Mutex struct {
	mu     gosync.Mutex
	locked bool
}

func (m *Mutex) Lock() {
	if !verifshim.Controlled() {
		m.mu.Lock()
		return
	}
	verifshim.Block(verifshim.OpLock, func() bool { return !m.locked })
	m.locked = true
}

func (m *Mutex) TryLock() bool {
	if !verifshim.Controlled() {
		return m.mu.TryLock()
	}
	verifshim.Block(verifshim.OpLock, nil)
	if m.locked {
		return false
	}
	m.locked = true
	return true
}

func (m *Mutex) Unlock() {
	if !verifshim.Controlled() {
		m.mu.Unlock()
		return
	}
	if !m.locked {
		panic("sync: unlock of unlocked mutex")
	}
	m.locked = false
}

// ---- RWMutex

type RWMutex struct {
	mu      gosync.RWMutex
	writer  bool
	readers int
}

func (m *RWMutex) Lock() {
	if !verifshim.Controlled() {
		m.mu.Lock()
		return
	}
	verifshim.Block(verifshim.OpLock, func() bool { return !m.writer && m.readers == 0 })
	m.writer = true
}

func (m *RWMutex) Unlock() {
	if !verifshim.Controlled() {
		m.mu.Unlock()
		return
	}
	if !m.writer {
		panic("sync: Unlock of unlocked RWMutex")
	}
	m.writer = false
}

func (m *RWMutex) RLock() {
	if !verifshim.Controlled() {
		m.mu.RLock()
		return
	}
	verifshim.Block(verifshim.OpRLock, func() bool { return !m.writer })
	m.readers++
}

func (m *RWMutex) RUnlock() {
	if !verifshim.Controlled() {
		m.mu.RUnlock()
		return
	}
	if m.readers == 0 {
		panic("sync: RUnlock of unlocked RWMutex")
	}
	m.readers--
}

func (m *RWMutex) RLocker() Locker { return (*rlocker)(m) }

type rlocker RWMutex

func (r *rlocker) Lock()   { (*RWMutex)(r).RLock() }
func (r *rlocker) Unlock() { (*RWMutex)(r).RUnlock() }

// ---- WaitGroup

type WaitGroup struct {
	wg gosync.WaitGroup
	n  int
}

func (w *WaitGroup) Add(d int) {
	if !verifshim.Controlled() {
		w.wg.Add(d)
		return
	}
	w.n += d
	if w.n < 0 {
		panic("sync: negative WaitGroup counter")
	}
}

func (w *WaitGroup) Done() { w.Add(-1) }

func (w *WaitGroup) Wait() {
	if !verifshim.Controlled() {
		w.wg.Wait()
		return
	}
	verifshim.Block(verifshim.OpWait, func() bool { return w.n == 0 })
}

// ---- Once

type Once struct {
	o     gosync.Once
	state int // 0 idle, 1 running, 2 done
}

func (o *Once) Do(f func()) {
	if !verifshim.Controlled() {
		o.o.Do(f)
		return
	}
	verifshim.Block(verifshim.OpOnce, func() bool { return o.state != 1 })
	if o.state == 2 {
		return
	}
	o.state = 1
	defer func() { o.state = 2 }()
	f()
}

// ---- Pool

// Policy of the deterministic pool. "real" (free mode only) delegates to sync.Pool.
var policy = "real"

// SetPoolPolicy selects real | fresh | lifo | fifo. Call between queries only.
func SetPoolPolicy(p string) { policy = p }
func PoolPolicy() string     { return policy }

type Pool struct {
	New func() any

	p     gosync.Pool
	mu    gosync.Mutex
	items []any
}

func (p *Pool) Get() any {
	if verifshim.Controlled() {
		if verifshim.PoolPoints {
			verifshim.Block(verifshim.OpPoolGet, nil)
		}
		return p.get(effective())
	}
	if policy == "real" {
		x := p.p.Get()
		if x == nil && p.New != nil {
			x = p.New()
		}
		return x
	}
	p.mu.Lock()
	defer p.mu.Unlock()
	return p.get(policy)
}

func effective() string {
	if policy == "real" {
		return "lifo"
	}
	return policy
}

func (p *Pool) get(pol string) any {
	n := len(p.items)
	if pol == "fresh" || n == 0 {
		if p.New != nil {
			return p.New()
		}
		return nil
	}
	var x any
	if pol == "fifo" {
		x = p.items[0]
		copy(p.items, p.items[1:])
	} else {
		x = p.items[n-1]
	}
	p.items[n-1] = nil
	p.items = p.items[:n-1]
	return x
}

func (p *Pool) Put(x any) {
	if x == nil {
		return
	}
	if verifshim.Controlled() {
		if verifshim.PoolPoints {
			verifshim.Block(verifshim.OpPoolPut, nil)
		}
		if effective() != "fresh" {
			p.items = append(p.items, x)
		}
		return
	}
	if policy == "real" {
		p.p.Put(x)
		return
	}
	if policy == "fresh" {
		return
	}
	p.mu.Lock()
	p.items = append(p.items, x)
	p.mu.Unlock()
}
