package verifshim

import (
	"reflect"
)

// Channels stay real Go channels. In controlled mode the shim computes enabledness
// from len/cap and a non-blocking probe, and performs the real operation only when
// it cannot block. All engine-side channel operations go through these functions, and
// exactly one engine thread runs at a time, so len/cap are exact.

func chanKey(ch any) uintptr { return reflect.ValueOf(ch).Pointer() }

// recvReady reports whether a receive on ch can proceed without blocking: a buffered
// value is available or the channel is closed. Probing a closed channel is free of
// side effects; an open empty channel takes the default branch.
func recvReady[C interface{ ~chan T | ~<-chan T }, T any](ch C) bool {
	if ch == nil {
		return false
	}
	if len(ch) > 0 {
		return true
	}
	select {
	case _, ok := <-ch:
		if ok {
			// Only possible for an unbuffered channel with a real blocked sender,
			// which the controlled mode never creates.
			panic("verifshim: probe consumed a value")
		}
		return true
	default:
		return false
	}
}

// ---- unbuffered channels (controlled mode): a rendezvous through a side table. The
// real channel is never used to transfer a value between engine threads: the sender
// deposits the value when a receiver is parked on the channel and proceeds once it was
// taken, so no thread ever blocks natively.

type slot struct {
	full    bool
	val     any // *T
	waiting int // receivers parked on the channel
}

func slotOf(ch any) *slot {
	k := chanKey(ch)
	sl := s.slots[k]
	if sl == nil {
		sl = &slot{}
		s.slots[k] = sl
		s.keep = append(s.keep, ch)
	}
	return sl
}

func isClosed(ch any) bool {
	_, ok := s.closed[chanKey(ch)]
	return ok
}

func sendReady[C interface{ ~chan T | ~chan<- T }, T any](ch C) bool {
	if ch == nil {
		return false
	}
	if isClosed(ch) {
		return true // will panic, like the real operation
	}
	if cap(ch) == 0 {
		sl := slotOf(ch)
		return !sl.full && sl.waiting > 0
	}
	return len(ch) < cap(ch)
}

// doSend performs a send that sendReady has declared possible.
func doSend[C interface{ ~chan T | ~chan<- T }, T any](ch C, v T) {
	if cap(ch) == 0 && !isClosed(ch) {
		sl := slotOf(ch)
		sl.val = &v
		sl.full = true
		point(OpSend, func() bool { return !sl.full })
		return
	}
	ch <- v
}

func recvReadyU[C interface{ ~chan T | ~<-chan T }, T any](ch C) bool {
	if ch == nil {
		return false
	}
	if cap(ch) == 0 {
		if sl := s.slots[chanKey(ch)]; sl != nil && sl.full {
			return true
		}
	}
	return recvReady[C, T](ch)
}

// doRecv performs a receive that recvReadyU has declared possible.
func doRecv[C interface{ ~chan T | ~<-chan T }, T any](ch C) (T, bool) {
	if cap(ch) == 0 {
		if sl := s.slots[chanKey(ch)]; sl != nil && sl.full {
			v := *(sl.val.(*T))
			sl.val = nil
			sl.full = false
			return v, true
		}
	}
	v, ok := <-ch
	return v, ok
}

func waitOn(ch any, d int) {
	if ch != nil && reflect.ValueOf(ch).Cap() == 0 {
		slotOf(ch).waiting += d
	}
}

func Send[C interface{ ~chan T | ~chan<- T }, T any](ch C, v T) {
	if !controlled {
		ch <- v
		return
	}
	point(OpSend, func() bool { return sendReady[C, T](ch) })
	doSend[C, T](ch, v)
}

func Recv[C interface{ ~chan T | ~<-chan T }, T any](ch C) T {
	if !controlled {
		return <-ch
	}
	waitOn(ch, 1)
	point(OpRecv, func() bool { return recvReadyU[C, T](ch) })
	waitOn(ch, -1)
	v, _ := doRecv[C, T](ch)
	return v
}

func Recv2[C interface{ ~chan T | ~<-chan T }, T any](ch C) (T, bool) {
	if !controlled {
		v, ok := <-ch
		return v, ok
	}
	waitOn(ch, 1)
	point(OpRecv, func() bool { return recvReadyU[C, T](ch) })
	waitOn(ch, -1)
	return doRecv[C, T](ch)
}

func Close[C interface{ ~chan T | ~chan<- T }, T any](ch C) {
	if controlled && s != nil && ch != nil {
		s.closed[chanKey(ch)] = ch
	}
	close(ch)
}

// ---------------------------------------------------------------------------------
// select

type SelCase interface {
	ready() bool
	fire()
	wait(d int)
	rcase() reflect.SelectCase
	set(v reflect.Value, ok bool)
	try() bool
}

type RCase[T any] struct {
	ch  <-chan T
	Val T
	Ok  bool
}

func RecvCase[C interface{ ~chan T | ~<-chan T }, T any](ch C) *RCase[T] {
	return &RCase[T]{ch: (<-chan T)(ch)}
}

func (c *RCase[T]) ready() bool { return recvReadyU[<-chan T, T](c.ch) }
func (c *RCase[T]) fire()       { c.Val, c.Ok = doRecv[<-chan T, T](c.ch) }
func (c *RCase[T]) wait(d int)  { waitOn(c.ch, d) }
func (c *RCase[T]) rcase() reflect.SelectCase {
	return reflect.SelectCase{Dir: reflect.SelectRecv, Chan: reflect.ValueOf(c.ch)}
}
func (c *RCase[T]) set(v reflect.Value, ok bool) {
	c.Ok = ok
	if ok && v.IsValid() {
		if x, is := v.Interface().(T); is {
			c.Val = x
		}
	}
}
func (c *RCase[T]) try() bool {
	select {
	case v, ok := <-c.ch:
		c.Val, c.Ok = v, ok
		return true
	default:
		return false
	}
}

type SCase[T any] struct {
	ch chan<- T
	v  T
}

func SendCase[C interface{ ~chan T | ~chan<- T }, T any](ch C, v T) *SCase[T] {
	return &SCase[T]{ch: (chan<- T)(ch), v: v}
}

func (c *SCase[T]) ready() bool { return sendReady[chan<- T, T](c.ch) }
func (c *SCase[T]) fire()       { doSend[chan<- T, T](c.ch, c.v) }
func (c *SCase[T]) wait(int)    {}
func (c *SCase[T]) rcase() reflect.SelectCase {
	return reflect.SelectCase{Dir: reflect.SelectSend, Chan: reflect.ValueOf(c.ch), Send: reflect.ValueOf(&c.v).Elem()}
}
func (c *SCase[T]) set(reflect.Value, bool) {}
func (c *SCase[T]) try() bool {
	select {
	case c.ch <- c.v:
		return true
	default:
		return false
	}
}

// Select replaces a select statement. It returns the index of the case that fired, or
// -1 for the default clause.
func Select(hasDefault bool, cases ...SelCase) int {
	if !controlled {
		if hasDefault && len(cases) == 1 {
			if cases[0].try() {
				return 0
			}
			return -1
		}
		rc := make([]reflect.SelectCase, 0, len(cases)+1)
		for _, c := range cases {
			rc = append(rc, c.rcase())
		}
		if hasDefault {
			rc = append(rc, reflect.SelectCase{Dir: reflect.SelectDefault})
		}
		i, v, ok := reflect.Select(rc)
		if i == len(cases) {
			return -1
		}
		cases[i].set(v, ok)
		return i
	}
	anyReady := func() bool {
		if hasDefault {
			return true
		}
		for _, c := range cases {
			if c.ready() {
				return true
			}
		}
		return false
	}
	for _, c := range cases {
		c.wait(1)
	}
	point(OpSelect, anyReady)
	for _, c := range cases {
		c.wait(-1)
	}
	var ready [8]int
	rd := ready[:0]
	for i, c := range cases {
		if c.ready() {
			rd = append(rd, i)
		}
	}
	if len(rd) == 0 {
		if !hasDefault {
			panic("verifshim: select scheduled with no ready case")
		}
		return -1
	}
	i := rd[0]
	if len(rd) > 1 {
		i = rd[subChoice(len(rd))]
	}
	cases[i].fire()
	return i
}
