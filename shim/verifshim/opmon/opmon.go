// Package opmon is the operator-boundary monitor of property C18. The instrumenter
// wraps every call in the engine that constructs a model.VectorOperator in W / W2, so
// every producer/consumer edge of every physical plan passes through a *mon.
package opmon

import (
	"context"
	"fmt"
	"math"
	"sync"
	"sync/atomic"

	"github.com/prometheus/prometheus/model/labels"
	"github.com/prometheus/prometheus/model/value"

	"github.com/thanos-community/promql-engine/execution/model"
	"github.com/thanos-community/promql-engine/query"
	"github.com/thanos-community/promql-engine/verifshim"
)

// Violation of one clause of the stream contract.
type Violation struct {
	Clause string // K1..K6
	Op     string // Explain() of the operator
	Site   string // construction site file:line
	Detail string
}

var (
	mu    sync.Mutex
	viols []Violation

	// counters for the evidence
	NextCalls   int64
	SeriesCalls int64
	Vectors     int64
	Operators   int64
)

const maxKept = 64

func report(m *mon, clause, format string, a ...any) {
	me, _ := m.op.Explain()
	mu.Lock()
	if len(viols) < maxKept {
		viols = append(viols, Violation{Clause: clause, Op: me, Site: m.site, Detail: fmt.Sprintf(format, a...)})
	}
	mu.Unlock()
}

// Take returns and clears the violations recorded so far.
func Take() []Violation {
	mu.Lock()
	defer mu.Unlock()
	v := viols
	viols = nil
	return v
}

type mon struct {
	op   model.VectorOperator
	site string

	hasGrid          bool
	start, end, step int64
	batchSize        int

	inflight int32

	smu          sync.Mutex
	seriesKnown  bool
	series       []labels.Labels
	ended        bool
	batches      int
	seen         []uint32
	epoch        uint32
	failedOrDone bool
}

// Unwrap returns the operator under the monitor (used by harness code that drives
// operators directly).
func Unwrap(op model.VectorOperator) model.VectorOperator {
	if m, ok := op.(*mon); ok {
		return m.op
	}
	return op
}

// W wraps one operator. Idempotent.
func W(op model.VectorOperator, site string, opts *query.Options) model.VectorOperator {
	if op == nil {
		return nil
	}
	if _, ok := op.(*mon); ok {
		return op
	}
	atomic.AddInt64(&Operators, 1)
	m := &mon{op: op, site: site, batchSize: 10}
	if opts != nil {
		m.hasGrid = true
		m.start = opts.Start.UnixMilli()
		m.end = opts.End.UnixMilli()
		m.step = opts.Step.Milliseconds()
		if opts.StepsBatch > 0 {
			m.batchSize = int(opts.StepsBatch)
		}
	}
	return m
}

// W2 wraps the first result of a constructor returning (operator, error).
func W2(site string, opts *query.Options) func(op model.VectorOperator, err error) (model.VectorOperator, error) {
	return func(op model.VectorOperator, err error) (model.VectorOperator, error) {
		if err != nil {
			return nil, err
		}
		return W(op, site, opts), nil
	}
}

func (m *mon) Explain() (string, []model.VectorOperator) { return m.op.Explain() }
func (m *mon) GetPool() *model.VectorPool                 { return m.op.GetPool() }

func (m *mon) Series(ctx context.Context) ([]labels.Labels, error) {
	atomic.AddInt64(&SeriesCalls, 1)
	s, err := m.op.Series(ctx)
	if err != nil {
		return s, err
	}
	m.smu.Lock()
	defer m.smu.Unlock()
	if !m.seriesKnown {
		m.seriesKnown = true
		m.series = make([]labels.Labels, len(s))
		for i := range s {
			m.series[i] = s[i].Copy()
		}
		return s, nil
	}
	if len(s) != len(m.series) {
		report(m, "K1", "series list changed length %d -> %d", len(m.series), len(s))
		return s, nil
	}
	for i := range s {
		if !labels.Equal(s[i], m.series[i]) {
			report(m, "K1", "series[%d] changed %s -> %s", i, m.series[i], s[i])
			break
		}
	}
	return s, nil
}

func (m *mon) Next(ctx context.Context) ([]model.StepVector, error) {
	atomic.AddInt64(&NextCalls, 1)
	if atomic.AddInt32(&m.inflight, 1) != 1 {
		report(m, "K6", "two Next calls in flight")
	}
	verifshim.Yield()
	out, err := m.op.Next(ctx)
	defer atomic.AddInt32(&m.inflight, -1)
	if err != nil {
		m.failedOrDone = true
		return out, err
	}
	if out == nil {
		m.ended = true
		return out, err
	}
	if m.ended {
		report(m, "K5", "batch of %d vectors after the end of the stream", len(out))
	}
	if len(out) > m.batchSize {
		report(m, "K2", "batch of %d vectors (batch size %d)", len(out), m.batchSize)
	}
	m.smu.Lock()
	known, nser := m.seriesKnown, len(m.series)
	m.smu.Unlock()
	for i := range out {
		v := &out[i]
		atomic.AddInt64(&Vectors, 1)
		if len(v.SampleIDs) != len(v.Samples) {
			report(m, "K4", "batch %d pos %d: %d ids, %d values", m.batches, i, len(v.SampleIDs), len(v.Samples))
			continue
		}
		if len(v.Samples) == 0 {
			continue
		}
		if m.hasGrid {
			want := m.start + int64(m.batches*m.batchSize+i)*m.step
			if v.T != want {
				report(m, "K3", "batch %d pos %d stamped %d, grid step is %d", m.batches, i, v.T, want)
			} else if v.T > m.end {
				report(m, "K3", "batch %d pos %d stamped %d beyond end %d", m.batches, i, v.T, m.end)
			}
		}
		m.epoch++
		if m.epoch == 0 {
			m.seen = nil
			m.epoch = 1
		}
		for j, id := range v.SampleIDs {
			if known && id >= uint64(nser) {
				report(m, "K4", "T=%d id %d not in series list of length %d", v.T, id, nser)
				break
			}
			if id < 1<<22 {
				if int(id) >= len(m.seen) {
					n := make([]uint32, int(id)+16)
					copy(n, m.seen)
					m.seen = n
				}
				if m.seen[id] == m.epoch {
					report(m, "K4", "T=%d id %d repeated within one step", v.T, id)
					break
				}
				m.seen[id] = m.epoch
			}
			if x := v.Samples[j]; x != x && value.IsStaleNaN(x) {
				report(m, "K4", "T=%d id %d staleness marker emitted", v.T, id)
				break
			}
		}
	}
	if m.hasGrid && len(out) > 0 {
		// a batch must cover its whole grid slice (positional pairing with siblings)
		remaining := 1
		if m.step > 0 {
			remaining = int((m.end-m.start)/m.step) + 1 - m.batches*m.batchSize
		} else {
			remaining = 1 - m.batches*m.batchSize
		}
		want := int(math.Min(float64(m.batchSize), float64(remaining)))
		if want > 0 && len(out) < want {
			nonEmpty := false
			for i := range out {
				if len(out[i].Samples) > 0 {
					nonEmpty = true
				}
			}
			if nonEmpty {
				report(m, "K3", "batch %d has %d vectors, grid slice has %d", m.batches, len(out), want)
			}
		}
	}
	m.batches++
	return out, err
}
