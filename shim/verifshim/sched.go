// Package verifshim is injected into the engine's module by `go build -overlay`
// (see /verif/DESIGN.md §1.2/§1.3). Every go statement, channel operation, select and
// sync.* call of the engine is rewritten by /verif/instr to call into this package.
//
// Two modes, fixed for the lifetime of a process:
//
//	free        primitives pass through to the real ones; the shim only counts live
//	            engine goroutines and recovers/records panics at goroutine tops.
//	controlled  a cooperative scheduler owns every interleaving decision; exactly one
//	            engine goroutine runs at a time.
package verifshim

import (
	"fmt"
	"runtime"
	"strings"
	"sync"
	"sync/atomic"
)

// ---------------------------------------------------------------------------------
// mode

var controlled bool

// SetControlled must be called before any engine code runs.
func SetControlled(b bool) { controlled = b }
func Controlled() bool     { return controlled }

// PoolPoints makes sync.Pool Get/Put scheduling points (controlled mode only).
var PoolPoints bool

// YieldPoints makes Yield() calls (operator boundaries, storage callbacks) scheduling points.
var YieldPoints bool

// ---------------------------------------------------------------------------------
// accounting shared by both modes

var live int64

// Live is the number of engine goroutines (started through Go) that have not returned.
func Live() int64 { return atomic.LoadInt64(&live) }

// PanicRec describes a panic that reached the top of an engine goroutine. In an
// uninstrumented build such a panic terminates the process.
type PanicRec struct {
	Val       string
	RuntimeEr bool
	IsError   bool
	Where     string // innermost engine frame
	Stack     string
}

var (
	pmu    sync.Mutex
	panics []PanicRec
)

func recordPanic(r any) {
	buf := make([]byte, 16<<10)
	buf = buf[:runtime.Stack(buf, false)]
	rec := PanicRec{Val: fmt.Sprint(r), Stack: string(buf)}
	if _, ok := r.(runtime.Error); ok {
		rec.RuntimeEr = true
	}
	if _, ok := r.(error); ok {
		rec.IsError = true
	}
	rec.Where = innermostEngineFrame(rec.Stack)
	pmu.Lock()
	panics = append(panics, rec)
	pmu.Unlock()
}

func innermostEngineFrame(stack string) string {
	for _, ln := range strings.Split(stack, "\n") {
		if strings.HasPrefix(ln, "github.com/thanos-community/promql-engine/") && !strings.Contains(ln, "/verifshim") {
			fn := strings.TrimPrefix(ln, "github.com/thanos-community/promql-engine/")
			if i := strings.LastIndex(fn, "("); i > 0 {
				fn = fn[:i]
			}
			return fn
		}
	}
	return "?"
}

// PanicCount is the number of recorded goroutine-top panics not yet taken.
func PanicCount() int {
	pmu.Lock()
	defer pmu.Unlock()
	return len(panics)
}

// TakePanics returns and clears the goroutine-top panics recorded so far.
func TakePanics() []PanicRec {
	pmu.Lock()
	defer pmu.Unlock()
	p := panics
	panics = nil
	return p
}

var cancels int64

// Cancel wraps every call of a context.CancelFunc made by engine code.
func Cancel(f func()) {
	atomic.AddInt64(&cancels, 1)
	if f != nil {
		f()
	}
}

// Cancels is the number of CancelFunc calls made by engine code so far.
func Cancels() int64 { return atomic.LoadInt64(&cancels) }

// ---------------------------------------------------------------------------------
// controlled mode: the cooperative scheduler

type OpKind uint8

const (
	OpStart OpKind = iota
	OpSend
	OpRecv
	OpSelect
	OpSelCase
	OpLock
	OpRLock
	OpWait
	OpOnce
	OpPoolGet
	OpPoolPut
	OpYield
	OpClose
)

var opNames = [...]string{"start", "send", "recv", "select", "selcase", "lock", "rlock", "wait", "once", "poolget", "poolput", "yield", "close"}

func (k OpKind) String() string { return opNames[k] }

type thread struct {
	id      int
	wake    chan struct{}
	kind    OpKind
	enabled func() bool
	parked  bool
	done    bool
	rank    int // delay mode: 0, or the order in which the thread was sent to the back
}

// Step is one scheduling decision.
type Step struct {
	Tid    int16  // thread that was chosen (or, for OpSelCase, the thread choosing a case)
	Kind   OpKind // pending operation of the chosen thread
	NAlt   int16  // number of candidates (1 = forced)
	Chosen int16  // index into the canonical candidate order
}

// RunResult is what one controlled execution produced.
type RunResult struct {
	Trace      []Step
	Deadlock   bool  // no enabled thread while the main body had not returned
	Blocked    []int // threads blocked for ever after the main body returned (leak)
	BlockedOps []string
	Horizon    bool // step horizon exceeded (livelock guard)
	EventFired bool
	EventStep  int
	Threads    int
	BadChoice  string // a deviation named an alternative that does not exist (replay divergence)
	Unsupp     string // construct the shim cannot control
}

type sched struct {
	threads    []*thread
	cur        *thread
	devs       map[int]int
	trace      []Step
	eventStep  int
	eventFn    func()
	eventFired bool
	horizon    int
	mainDone   bool
	res        RunResult
	finished   chan struct{}
	over       bool
	enBuf      []*thread
	closed     map[uintptr]any
	slots      map[uintptr]*slot
	keep       []any
	inEvent    bool
	delay      bool
	nextRank   int
	demBuf     []*thread
}

var s *sched

// RunOpts configures one controlled execution.
type RunOpts struct {
	Devs      map[int]int // step index -> alternative to take instead of the default (0)
	EventStep int         // run EventFn immediately before scheduling step EventStep (if EventFn != nil)
	EventFn   func()
	Horizon   int
	// Delay selects delay bounding: taking alternative k at a step also sends the k
	// threads that were ahead in the canonical order to the back of that order for the
	// rest of the execution (they run only when nothing else can), instead of letting
	// them win again at the next step. One deviation then stalls a thread across many
	// hand-offs of the others, which preemption bounding needs one deviation each for.
	Delay bool
}

// Run executes body as thread 0 under the cooperative scheduler and returns when every
// thread has finished or is blocked for ever. It must be called from a goroutine that
// is not itself an engine thread, and never concurrently.
func Run(o RunOpts, body func()) RunResult {
	if !controlled {
		panic("verifshim.Run in free mode")
	}
	sc := &sched{devs: o.Devs, eventStep: o.EventStep, eventFn: o.EventFn, horizon: o.Horizon, delay: o.Delay,
		finished: make(chan struct{}), closed: map[uintptr]any{}, slots: map[uintptr]*slot{}}
	if sc.horizon == 0 {
		sc.horizon = 50000
	}
	s = sc
	t0 := sc.newThread()
	atomic.AddInt64(&live, 1)
	go sc.threadMain(t0, func() {
		body()
		sc.mainDone = true
	})
	// hand the token to thread 0 through the normal decision procedure
	sc.dispatch(nil)
	<-sc.finished
	sc.res.Trace = sc.trace
	sc.res.EventFired = sc.eventFired
	sc.res.EventStep = sc.eventStep
	sc.res.Threads = len(sc.threads)
	return sc.res
}

func (sc *sched) newThread() *thread {
	t := &thread{id: len(sc.threads), wake: make(chan struct{}, 1), kind: OpStart, parked: true}
	sc.threads = append(sc.threads, t)
	return t
}

func (sc *sched) threadMain(t *thread, f func()) {
	<-t.wake
	defer func() {
		if r := recover(); r != nil {
			recordPanic(r)
		}
		atomic.AddInt64(&live, -1)
		t.done = true
		t.parked = false
		if sc.over {
			return
		}
		sc.dispatch(t)
	}()
	f()
}

// Go replaces the go statement.
func Go(f func()) {
	if !controlled {
		atomic.AddInt64(&live, 1)
		go func() {
			defer func() {
				if r := recover(); r != nil {
					recordPanic(r)
				}
				atomic.AddInt64(&live, -1)
			}()
			f()
		}()
		return
	}
	sc := s
	t := sc.newThread()
	atomic.AddInt64(&live, 1)
	go sc.threadMain(t, f)
}

// pick makes one scheduling decision. It runs on the goroutine that currently holds
// the token (or on the Run caller for the very first decision).
func (sc *sched) pick() *thread {
	if sc.eventFn != nil && !sc.eventFired && len(sc.trace) >= sc.eventStep {
		sc.eventFired = true
		// the event runs on the scheduler's behalf, not on an engine thread: hooked
		// operations it performs (Query.Cancel takes a mutex) are not scheduling points
		sc.inEvent = true
		sc.eventFn()
		sc.inEvent = false
	}
	en := sc.enBuf[:0]
	cur := sc.cur
	if cur != nil && cur.rank == 0 && !cur.done && cur.parked && (cur.enabled == nil || cur.enabled()) {
		en = append(en, cur)
	}
	dem := sc.demBuf[:0]
	for _, t := range sc.threads {
		if (t != cur || t.rank != 0) && !t.done && t.parked && (t.enabled == nil || t.enabled()) {
			if t.rank != 0 {
				// delayed threads go last, in the order in which they were delayed
				i := len(dem)
				dem = append(dem, t)
				for i > 0 && dem[i-1].rank > t.rank {
					dem[i] = dem[i-1]
					i--
				}
				dem[i] = t
				continue
			}
			en = append(en, t)
		}
	}
	en = append(en, dem...)
	sc.enBuf, sc.demBuf = en, dem
	if len(en) == 0 {
		return nil
	}
	idx := sc.choose(len(en))
	t := en[idx]
	if sc.delay {
		for _, d := range en[:idx] {
			sc.nextRank++
			d.rank = sc.nextRank
		}
	}
	sc.trace = append(sc.trace, Step{Tid: int16(t.id), Kind: t.kind, NAlt: int16(len(en)), Chosen: int16(idx)})
	return t
}

// choose consumes the deviation (if any) registered for the step about to be recorded.
func (sc *sched) choose(n int) int {
	if a, ok := sc.devs[len(sc.trace)]; ok {
		if a >= n {
			if sc.res.BadChoice == "" {
				sc.res.BadChoice = fmt.Sprintf("step %d: alternative %d of %d", len(sc.trace), a, n)
			}
			return 0
		}
		return a
	}
	return 0
}

// dispatch passes the token on. from is the thread giving it up (nil for the Run caller).
// It returns without waiting; callers that must wait for the token do so themselves.
func (sc *sched) dispatch(from *thread) {
	if len(sc.trace) >= sc.horizon {
		sc.res.Horizon = true
		sc.finish()
		return
	}
	next := sc.pick()
	if next == nil {
		// nobody can run
		var blocked []int
		var ops []string
		for _, t := range sc.threads {
			if !t.done {
				blocked = append(blocked, t.id)
				ops = append(ops, fmt.Sprintf("t%d:%s", t.id, t.kind))
			}
		}
		if len(blocked) > 0 {
			if sc.mainDone {
				sc.res.Blocked = blocked
			} else {
				sc.res.Deadlock = true
				sc.res.Blocked = blocked
			}
			sc.res.BlockedOps = ops
		}
		sc.finish()
		return
	}
	sc.cur = next
	next.parked = false
	next.wake <- struct{}{}
}

func (sc *sched) finish() {
	if !sc.over {
		sc.over = true
		close(sc.finished)
	}
}

// point is called by the running thread before a potentially blocking (or otherwise
// order-sensitive) operation. It returns when the scheduler has chosen this thread and
// the operation is enabled.
func point(kind OpKind, enabled func() bool) {
	sc := s
	if sc.inEvent {
		if enabled != nil && !enabled() {
			Unsupported("environment event blocks on " + kind.String())
		}
		return
	}
	t := sc.cur
	if sc.over {
		// the execution was abandoned (horizon/deadlock): park for ever
		select {}
	}
	t.kind = kind
	t.enabled = enabled
	t.parked = true
	if len(sc.trace) >= sc.horizon {
		sc.res.Horizon = true
		sc.finish()
		select {}
	}
	next := sc.pick()
	if next == t {
		t.parked = false
		t.enabled = nil
		return
	}
	if next == nil {
		sc.dispatch(t) // records deadlock/leak and finishes
		select {}
	}
	sc.cur = next
	next.parked = false
	next.wake <- struct{}{}
	<-t.wake
	t.enabled = nil
}

// subChoice lets the running thread make a recorded n-way choice (ready select cases).
func subChoice(n int) int {
	sc := s
	idx := sc.choose(n)
	sc.trace = append(sc.trace, Step{Tid: int16(sc.cur.id), Kind: OpSelCase, NAlt: int16(n), Chosen: int16(idx)})
	return idx
}

// Block is the generic scheduling point used by verifshim/sync.
func Block(kind OpKind, enabled func() bool) {
	if !controlled {
		return
	}
	point(kind, enabled)
}

// Yield is an optional scheduling point (operator boundaries, storage callbacks).
func Yield() {
	if controlled && YieldPoints && s != nil && !s.over && s.cur != nil {
		point(OpYield, nil)
	}
}

// Unsupported records that engine code used a construct the shim cannot control.
func Unsupported(what string) {
	if controlled && s != nil && s.res.Unsupp == "" {
		s.res.Unsupp = what
	}
}

// CurrentStep is the number of scheduling decisions taken so far in this execution.
func CurrentStep() int {
	if s == nil {
		return 0
	}
	return len(s.trace)
}
