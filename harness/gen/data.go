// Package gen holds the alphabets (DESIGN.md §2): datasets, windows, grammar
// productions. Everything here is deterministic.
package gen

import (
	"fmt"
	"math"

	"verif/harness/core"
)

func pt(t int64, v float64) core.Pt { return core.Pt{T: t, V: core.F(v)} }

// Regular builds a series with n samples spaced `every` ms starting at t0 with values
// base, base+inc, ...
func Regular(l string, t0, every int64, n int, base, inc float64) core.SeriesSpec {
	s := core.SeriesSpec{L: l}
	for i := 0; i < n; i++ {
		s.S = append(s.S, pt(t0+int64(i)*every, base+inc*float64(i)))
	}
	return s
}

// SchedData: the tiny dataset of the E-SCHED scenarios.
func SchedData(n int) []core.SeriesSpec {
	return []core.SeriesSpec{
		Regular(`a{l="0",m="0"}`, 0, 30000, n, 1, 1),
		Regular(`a{l="0",m="1"}`, 0, 30000, n, 10, 1),
		Regular(`a{l="1"}`, 0, 30000, n, 100, 1),
		Regular(`b{l="0"}`, 0, 30000, n, 5, 1),
		Regular(`b{l="1"}`, 0, 30000, n, 7, 2),
	}
}

var inf = math.Inf(1)
var nan = math.NaN()

// D1: regular data, 3 series of a (one lacks m, one lacks l... ), 2 of b.
func D1() []core.SeriesSpec {
	return []core.SeriesSpec{
		Regular(`a{l="0",m="0"}`, 0, 30000, 50, 1, 1),
		Regular(`a{l="0",m="1"}`, 0, 30000, 50, 10, 2),
		Regular(`a{l="1"}`, 0, 30000, 50, 100, 0.5),
		Regular(`a{m="1"}`, 0, 30000, 8, 3.5, 1), // ends early, lacks l
		Regular(`b{l="0"}`, 0, 30000, 50, 5, 1),
		Regular(`b{l="1",m="0"}`, 0, 30000, 50, 2, 3),
	}
}

// D2: irregular spacing, a gap longer than the lookback, a stale marker, a late starter.
func D2() []core.SeriesSpec {
	a0 := core.SeriesSpec{L: `a{l="0",m="0"}`}
	for i := 0; i < 50; i++ {
		t := int64(i)*30000 + int64((i*7)%11)*1000
		a0.S = append(a0.S, pt(t, float64(1+i)))
	}
	a1 := core.SeriesSpec{L: `a{l="0",m="1"}`}
	for i := 0; i < 50; i++ {
		if i >= 10 && i < 24 { // 7 minute gap
			continue
		}
		a1.S = append(a1.S, pt(int64(i)*30000, float64(10+2*i)))
	}
	a2 := core.SeriesSpec{L: `a{l="1"}`}
	for i := 0; i < 50; i++ {
		v := float64(100 + i)
		if i == 6 || i == 7 || i == 15 {
			v = core.Stale
		}
		a2.S = append(a2.S, pt(int64(i)*30000, v))
	}
	a3 := Regular(`a{l="1",m="1"}`, 400000, 30000, 30, 7, 1) // starts late
	b0 := Regular(`b{l="0"}`, 5000, 30000, 50, 5, 1)
	b1 := core.SeriesSpec{L: `b{l="1",m="0"}`}
	for i := 0; i < 20; i++ {
		b1.S = append(b1.S, pt(int64(i)*45000, 2.25+3*float64(i))) // never ties with b{l="0"}
	}
	return []core.SeriesSpec{a0, a1, a2, a3, b0, b1}
}

// D3: NaN/Inf/negative values, counter resets, a series lacking every label but the name.
func D3() []core.SeriesSpec {
	vals := []float64{1, 2, 3.5, -1, 0, nan, 2, inf, 3, -inf, 1, 0.5, 1e6, 2, 1, 7, 8, 9, 1, 2}
	a0 := core.SeriesSpec{L: `a{l="0",m="0"}`}
	a1 := core.SeriesSpec{L: `a{l="0",m="1"}`}
	a2 := core.SeriesSpec{L: `a`}
	for i := 0; i < 40; i++ {
		a0.S = append(a0.S, pt(int64(i)*30000, vals[i%len(vals)]))
		a1.S = append(a1.S, pt(int64(i)*30000, vals[(i*3+1)%len(vals)]))
		a2.S = append(a2.S, pt(int64(i)*30000, float64((i*5)%7))) // resets
	}
	return []core.SeriesSpec{a0, a1, a2,
		Regular(`b{l="0"}`, 0, 30000, 40, -2, 0.5),
		Regular(`b{m="0"}`, 0, 30000, 40, 0, 0)}
}

// D4: empty storage.
func D4() []core.SeriesSpec { return nil }

// D5: label names that sort before __name__ (upper case, a lone underscore) and after
// every other label, non-ASCII values; values distinct everywhere.
func D5() []core.SeriesSpec {
	return []core.SeriesSpec{
		Regular(`a{A="1",l="0",m="0"}`, 0, 30000, 50, 1, 1),
		Regular(`a{L="x",l="0",m="1"}`, 0, 30000, 50, 10.5, 2),
		Regular(`a{Z="é",_="u",l="1"}`, 0, 30000, 50, 100.25, 0.5),
		Regular(`a{l="1",m="1",zz="last"}`, 0, 30000, 50, 7.125, 3),
		// a value that is a proper prefix of another one with more labels following, and a
		// label name that is a proper prefix of another name (byte-wise comparison of an
		// encoded label set orders these differently from labels.Compare)
		Regular(`a{l="1",m="10",zz="first"}`, 0, 30000, 50, 31.5, 2),
		Regular(`a{l="1",lx="0",m="1"}`, 0, 30000, 50, 57.25, 1),
		Regular(`b{A="1",l="0"}`, 0, 30000, 50, 5, 1),
		Regular(`b{Z="é",l="1",m="0"}`, 0, 30000, 50, 2.75, 3),
	}
}

func Dataset(name string) []core.SeriesSpec {
	switch name {
	case "D1":
		return D1()
	case "D2":
		return D2()
	case "D3":
		return D3()
	case "D4":
		return D4()
	case "D5":
		return D5()
	}
	panic("unknown dataset " + name)
}

// NSeries builds n series of metric a with distinct label values and distinct sample
// values (value = 1000*i + step index), spacing 30 s, cnt samples.
func NSeries(n, cnt int) []core.SeriesSpec {
	out := make([]core.SeriesSpec, n)
	for i := 0; i < n; i++ {
		out[i] = Regular(fmt.Sprintf(`a{l="%d",m="%d"}`, i%3, i), 0, 30000, cnt, float64(1000*(i+1)), 1)
	}
	return out
}
