package gen

import (
	"fmt"
	"sort"
	"strings"

	"github.com/prometheus/prometheus/promql/parser"

	"github.com/thanos-community/promql-engine/execution/function"
)

// Canon parses q and returns the parser's printing of it, or "" if q is not a valid
// (well-typed) expression.
func Canon(q string) string {
	e, err := parser.ParseExpr(q)
	if err != nil {
		return ""
	}
	return e.String()
}

func TypeOf(q string) parser.ValueType {
	e, err := parser.ParseExpr(q)
	if err != nil {
		return parser.ValueTypeNone
	}
	return e.Type()
}

// Set is an insertion-ordered, canonically de-duplicated set of queries: the explicit
// state set of the grammar search. Add counts a transition for every production
// applied and a state for every new canonical form.
type Set struct {
	List        []string
	Depth       map[string]int
	seen        map[string]bool
	Transitions int64
}

func NewSet() *Set { return &Set{seen: map[string]bool{}, Depth: map[string]int{}} }

func (s *Set) Add(q string, depth int) bool {
	s.Transitions++
	c := Canon(q)
	if c == "" || s.seen[c] {
		return false
	}
	s.seen[c] = true
	s.List = append(s.List, c)
	s.Depth[c] = depth
	return true
}

func (s *Set) Has(q string) bool { return s.seen[Canon(q)] }

// NativeFuncs lists the functions the engine implements natively, read off the
// engine's own table so that the alphabet follows the code.
func NativeFuncs() []string {
	var out []string
	for name := range function.Funcs {
		out = append(out, name)
	}
	// histogram_quantile has its own operator
	out = append(out, "histogram_quantile")
	sort.Strings(out)
	return out
}

var (
	Groupings = []string{"", "by ()", "by (l)", "by (l, m)", "by (z)", "by (__name__)", "without (l)", "without ()", "by (m, l)", "without (l, m)"}
	SimpleAgg = []string{"sum", "min", "max", "avg", "count", "group", "stddev", "stdvar"}
	BinOps    = []string{"+", "-", "*", "/", "%", "^", "==", "!=", ">", "<", ">=", "<=", "atan2"}
	CmpOps    = map[string]bool{"==": true, "!=": true, ">": true, "<": true, ">=": true, "<=": true}
	Matchings = []string{"", "on ()", "on (l)", "ignoring (m)", "on (l) group_left", "on (l) group_left (m)", "on (l) group_right", "ignoring (m) group_left", "on (__name__, l)"}
	Ranges    = []string{"15s", "30s", "45s", "1m", "90s"}
)

// LeafSelectorsF: the selector leaves of the full alphabet.
var LeafSelectorsF = []string{
	`a`, `b`, `a{l="0"}`, `a{m=""}`, `a{l!="0"}`, `a{l=~"0|1",m="1"}`,
	`a offset 30s`, `a offset -30s`,
	`a @ 45.000`, `a @ 5000.000`, `a @ -100.000`, `a @ start()`, `a @ end()`, `a @ 45.000 offset 30s`,
}

var ScalarLeaves = []string{`2`, `-1.5`, `time()`, `pi()`, `scalar(b{l="0"})`, `scalar(a)`}

// callArgs builds type-correct minimal argument lists for a function, from the
// parser's own signature table. vec is the vector operand to use.
func callArgs(fn *parser.Function, vec, matrix string, scalars []string) [][]string {
	lists := [][]string{{}}
	si := 0
	for _, at := range fn.ArgTypes {
		var opts []string
		switch at {
		case parser.ValueTypeVector:
			opts = []string{vec}
		case parser.ValueTypeMatrix:
			opts = []string{matrix}
		case parser.ValueTypeScalar:
			if si < len(scalars) {
				opts = []string{scalars[si]}
			} else {
				opts = []string{"2"}
			}
			si++
		case parser.ValueTypeString:
			opts = []string{`"x"`}
		}
		var next [][]string
		for _, l := range lists {
			for _, o := range opts {
				next = append(next, append(append([]string(nil), l...), o))
			}
		}
		lists = next
	}
	return lists
}

// CallsOver applies every natively supported function to the operand.
// kind: "vector" applies instant functions to vec; "matrix" applies range functions to
// vec[r] for every r.
func CallsOver(vec string, isSelector bool) []string {
	var out []string
	for _, name := range NativeFuncs() {
		fn := parser.Functions[name]
		if fn == nil {
			continue
		}
		hasMatrix, hasVector := false, false
		for _, at := range fn.ArgTypes {
			if at == parser.ValueTypeMatrix {
				hasMatrix = true
			}
			if at == parser.ValueTypeVector {
				hasVector = true
			}
		}
		scalarVariants := [][]string{{"2", "5"}}
		switch name {
		case "clamp":
			scalarVariants = [][]string{{"1", "5"}, {"5", "1"}, {"2", "2"}, {`scalar(b{l="0"})`, "50"}, {"-1", "NaN"}}
		case "clamp_min", "clamp_max":
			scalarVariants = [][]string{{"2"}, {`scalar(b{l="0"})`}, {"NaN"}, {"time() / 100"}}
		case "histogram_quantile":
			scalarVariants = [][]string{{"0.5"}, {"0.9"}, {"-1"}, {"2"}, {"NaN"}}
		case "vector":
			scalarVariants = [][]string{{"2"}, {"time()"}, {`scalar(b{l="0"})`}}
		}
		switch {
		case hasMatrix:
			if !isSelector {
				continue
			}
			for _, r := range Ranges {
				m := matrixOf(vec, r)
				if m == "" {
					continue
				}
				for _, sv := range scalarVariants {
					for _, args := range callArgs(fn, vec, m, sv) {
						out = append(out, fmt.Sprintf("%s(%s)", name, strings.Join(args, ", ")))
					}
				}
			}
		case hasVector:
			for _, sv := range scalarVariants {
				for _, args := range callArgs(fn, vec, "", sv) {
					out = append(out, fmt.Sprintf("%s(%s)", name, strings.Join(args, ", ")))
				}
			}
		default:
			// scalar-only or no-arg functions do not take the operand
		}
	}
	return out
}

// matrixOf turns `a offset 30s` into `a[r] offset 30s` (the range goes before modifiers).
func matrixOf(sel, r string) string {
	e, err := parser.ParseExpr(sel)
	if err != nil {
		return ""
	}
	vs, ok := e.(*parser.VectorSelector)
	if !ok {
		return ""
	}
	// print without modifiers, then re-attach
	base := *vs
	base.OriginalOffset = 0
	base.Timestamp = nil
	base.StartOrEnd = 0
	s := base.String() + "[" + r + "]"
	full := vs.String()
	rest := strings.TrimPrefix(full, base.String())
	return s + rest
}

// NoOperandCalls: functions without vector/matrix operand.
func NoOperandCalls() []string {
	var out []string
	for _, name := range NativeFuncs() {
		fn := parser.Functions[name]
		if fn == nil {
			continue
		}
		ok := true
		for _, at := range fn.ArgTypes {
			if at == parser.ValueTypeVector || at == parser.ValueTypeMatrix {
				ok = false
			}
		}
		if !ok {
			continue
		}
		switch len(fn.ArgTypes) {
		case 0:
			out = append(out, name+"()")
		default:
			for _, sc := range []string{"2", "time()", `scalar(b{l="0"})`, `scalar(a)`, "NaN"} {
				args := make([]string, len(fn.ArgTypes))
				for i := range args {
					args[i] = sc
				}
				out = append(out, fmt.Sprintf("%s(%s)", name, strings.Join(args, ", ")))
			}
		}
	}
	return out
}

// AggsOver applies every aggregation with every grouping to the operand.
func AggsOver(vec string, groupings []string, kparams, qparams []string) []string {
	var out []string
	for _, g := range groupings {
		for _, op := range SimpleAgg {
			out = append(out, fmt.Sprintf("%s %s (%s)", op, g, vec))
		}
		for _, p := range kparams {
			out = append(out, fmt.Sprintf("topk %s (%s, %s)", g, p, vec))
			out = append(out, fmt.Sprintf("bottomk %s (%s, %s)", g, p, vec))
		}
		for _, p := range qparams {
			out = append(out, fmt.Sprintf("quantile %s (%s, %s)", g, p, vec))
		}
	}
	return out
}

var KParamsF = []string{"1", "2", "5", "0", "-1", "1.5", "NaN", "1e30", "1e18", `scalar(b{l="0"})`, `scalar(b{l="0"}) - 6`}
var QParamsF = []string{"0.5", "0", "1", "-1", "2", "NaN", `scalar(b{l="0"}) / 10`}

// BinsOver builds binary expressions between l and r.
func BinsOver(l, r string, ops, matchings []string, withBool bool) []string {
	var out []string
	lt, rt := TypeOf(l), TypeOf(r)
	vv := lt == parser.ValueTypeVector && rt == parser.ValueTypeVector
	for _, op := range ops {
		ms := []string{""}
		if vv {
			ms = matchings
		}
		for _, m := range ms {
			out = append(out, fmt.Sprintf("(%s) %s %s (%s)", l, op, m, r))
			if withBool && CmpOps[op] {
				out = append(out, fmt.Sprintf("(%s) %s bool %s (%s)", l, op, m, r))
			}
		}
	}
	return out
}

// FullDepth1 is the full alphabet F at depth <= 1 (DESIGN.md §2).
func FullDepth1() *Set {
	s := NewSet()
	for _, q := range LeafSelectorsF {
		s.Add(q, 0)
	}
	for _, q := range ScalarLeaves {
		s.Add(q, 0)
	}
	for _, q := range NoOperandCalls() {
		s.Add(q, 1)
	}
	for _, sel := range LeafSelectorsF {
		for _, q := range CallsOver(sel, true) {
			s.Add(q, 1)
		}
		s.Add("-"+sel, 1)
		s.Add("+"+sel, 1)
		s.Add("("+sel+")", 1)
	}
	for _, sel := range []string{`a`, `a{m=""}`, `a offset 30s`, `a @ 45.000`} {
		for _, q := range AggsOver(sel, Groupings, KParamsF, QParamsF) {
			s.Add(q, 1)
		}
	}
	// binary: vector-vector
	for _, pr := range [][2]string{{"a", "b"}, {"a", "a"}, {`a{m="0"}`, "b"}, {"b", "a"}, {`a`, `a offset 30s`}, {`a @ 45.000`, `a`},
		{`a @ end()`, `a`}, {`a`, `a @ end()`}, {`a @ start()`, `a`}, {`a`, `a @ start()`}} {
		for _, q := range BinsOver(pr[0], pr[1], BinOps, Matchings, true) {
			s.Add(q, 1)
		}
	}
	// vector-scalar, scalar-vector, scalar-scalar
	for _, sc := range []string{"2", "0", "-1", "NaN", "time()", `scalar(b{l="0"})`, "pi()"} {
		for _, v := range []string{"a", `a @ 45.000`} {
			for _, q := range BinsOver(v, sc, BinOps, nil, true) {
				s.Add(q, 1)
			}
			for _, q := range BinsOver(sc, v, BinOps, nil, true) {
				s.Add(q, 1)
			}
		}
		for _, sc2 := range []string{"2", "time()", `scalar(b{l="0"})`} {
			for _, q := range BinsOver(sc, sc2, BinOps, nil, true) {
				s.Add(q, 1)
			}
		}
	}
	return s
}

// ---- composition alphabet K (one representative per code path)

var KLeaves = []string{`a`, `b`, `a offset 30s`, `a @ 45.000`, `2`, `time()`}

// KUnary applies the K unary productions to x.
func KUnary(x string) []string {
	t := TypeOf(x)
	var out []string
	if t == parser.ValueTypeVector {
		out = append(out,
			"abs("+x+")", "clamp_min("+x+", 2)", "ceil("+x+")",
			"sum by (l) ("+x+")", "max without (l) ("+x+")", "count("+x+")", "sum("+x+")",
			"topk(1, "+x+")", "topk by (l) (1, "+x+")", "quantile(0.5, "+x+")",
			"-("+x+")", "+("+x+")", "scalar("+x+")")
		if e, err := parser.ParseExpr(x); err == nil {
			if _, ok := e.(*parser.VectorSelector); ok {
				out = append(out, "rate("+matrixOf(x, "1m")+")", "sum_over_time("+matrixOf(x, "45s")+")", "last_over_time("+matrixOf(x, "1m")+")")
			}
		}
	}
	if t == parser.ValueTypeScalar {
		out = append(out, "vector("+x+")", "-("+x+")")
	}
	return out
}

var KBinOps = []string{"+", ">", "== bool"}
var KMatchings = []string{"", "on (l)", "on (l) group_left"}

func KBinary(l, r string) []string {
	lt, rt := TypeOf(l), TypeOf(r)
	vv := lt == parser.ValueTypeVector && rt == parser.ValueTypeVector
	var out []string
	for _, op := range KBinOps {
		ms := []string{""}
		if vv {
			ms = KMatchings
		}
		for _, m := range ms {
			if strings.HasSuffix(op, "bool") {
				out = append(out, fmt.Sprintf("(%s) == bool %s (%s)", l, m, r))
			} else {
				out = append(out, fmt.Sprintf("(%s) %s %s (%s)", l, op, m, r))
			}
		}
	}
	return out
}

// KDepth returns the composition alphabet closed to the given depth (1, 2 or 3).
// Depth 2 is complete over K: every unary production over every depth-1 state, every
// binary production over (depth<=1, leaf), (leaf, depth<=1) and over all pairs of
// depth-1 states rooted in a function or aggregation. Depth 3 applies the unary
// productions once more and the binary productions with one leaf operand.
func KDepth(depth int) *Set {
	s := NewSet()
	for _, q := range KLeaves {
		s.Add(q, 0)
	}
	leaves := append([]string(nil), s.List...)
	var d1 []string
	for _, l := range leaves {
		for _, q := range KUnary(l) {
			if s.Add(q, 1) {
				d1 = append(d1, Canon(q))
			}
		}
	}
	for _, l := range leaves {
		for _, r := range leaves {
			for _, q := range KBinary(l, r) {
				if s.Add(q, 1) {
					d1 = append(d1, Canon(q))
				}
			}
		}
	}
	if depth < 2 {
		return s
	}
	var d2 []string
	for _, x := range d1 {
		for _, q := range KUnary(x) {
			if s.Add(q, 2) {
				d2 = append(d2, Canon(q))
			}
		}
		for _, l := range leaves {
			for _, q := range KBinary(x, l) {
				if s.Add(q, 2) {
					d2 = append(d2, Canon(q))
				}
			}
			for _, q := range KBinary(l, x) {
				if s.Add(q, 2) {
					d2 = append(d2, Canon(q))
				}
			}
		}
	}
	var rooted []string
	for _, x := range d1 {
		if e, err := parser.ParseExpr(x); err == nil {
			switch e.(type) {
			case *parser.Call, *parser.AggregateExpr:
				rooted = append(rooted, x)
			}
		}
	}
	for _, x := range rooted {
		for _, y := range rooted {
			for _, q := range KBinary(x, y) {
				if s.Add(q, 2) {
					d2 = append(d2, Canon(q))
				}
			}
		}
	}
	if depth < 3 {
		return s
	}
	for _, x := range d2 {
		for _, q := range KUnary(x) {
			s.Add(q, 3)
		}
		for _, l := range []string{"a", "2"} {
			for _, q := range KBinary(x, l) {
				s.Add(q, 3)
			}
		}
	}
	return s
}
