// Package plan lists, per property, the sub-checks the driver runs and the process
// mode each needs. It imports nothing from the engine so that the driver can be built
// once at setup time.
package plan

type Sub struct {
	Name   string // e.g. "C11/sched"
	Mode   string // free | controlled | race
	QuickS int    // internal deadline (seconds), quick tier
	ThorS  int    // internal deadline (seconds), thorough tier
	Shards int    // 0 = all cores
}

var Props = []string{"C01", "C02", "C03", "C04", "C05", "C06", "C07", "C08", "C09", "C10",
	"C11", "C12", "C13", "C14", "C15", "C16", "C17", "C18", "C19", "C20"}

var table = map[string][]Sub{}

func add(prop string, subs ...Sub) { table[prop] = append(table[prop], subs...) }

func Subs(prop string) []Sub { return table[prop] }

func init() {
	add("C01", Sub{Name: "C01/enum", Mode: "free", QuickS: 150, ThorS: 1500})
	add("C12", Sub{Name: "C12/sched", Mode: "controlled", QuickS: 100, ThorS: 1200}, Sub{Name: "C12/race", Mode: "race", QuickS: 100, ThorS: 600, Shards: 8})
	add("C13", Sub{Name: "C13/fault", Mode: "free", QuickS: 100, ThorS: 900}, Sub{Name: "C13/params", Mode: "free", QuickS: 100, ThorS: 600},
		Sub{Name: "C13/sched", Mode: "controlled", QuickS: 80, ThorS: 600})
	add("C15", Sub{Name: "C15/fault", Mode: "free", QuickS: 120, ThorS: 900}, Sub{Name: "C15/sched", Mode: "controlled", QuickS: 80, ThorS: 600})
	add("C17", Sub{Name: "C17/fault", Mode: "free", QuickS: 120, ThorS: 900}, Sub{Name: "C17/sched", Mode: "controlled", QuickS: 100, ThorS: 900})
	add("C14", Sub{Name: "C14/sched", Mode: "controlled", QuickS: 120, ThorS: 1500}, Sub{Name: "C14/cancel", Mode: "free", QuickS: 100, ThorS: 600})
	add("C02", Sub{Name: "C02/enum", Mode: "free", QuickS: 150, ThorS: 1500})
	add("C03", Sub{Name: "C03/enum", Mode: "free", QuickS: 150, ThorS: 1500})
	add("C04", Sub{Name: "C04/enum", Mode: "free", QuickS: 150, ThorS: 1500})
	add("C05", Sub{Name: "C05/enum", Mode: "free", QuickS: 150, ThorS: 1500})
	add("C06", Sub{Name: "C06/enum", Mode: "free", QuickS: 150, ThorS: 1500})
	add("C07", Sub{Name: "C07/enum", Mode: "free", QuickS: 150, ThorS: 1500})
	add("C08", Sub{Name: "C08/enum", Mode: "free", QuickS: 150, ThorS: 900})
	add("C09", Sub{Name: "C09/enum", Mode: "free", QuickS: 150, ThorS: 1700})
	add("C10", Sub{Name: "C10/enum", Mode: "free", QuickS: 150, ThorS: 1500})
	add("C16", Sub{Name: "C16/enum", Mode: "free", QuickS: 150, ThorS: 1200})
	add("C11", Sub{Name: "C11/sched", Mode: "controlled", QuickS: 100, ThorS: 1500}, Sub{Name: "C11/enum", Mode: "free", QuickS: 120, ThorS: 1200})
	add("C18", Sub{Name: "C18/enum", Mode: "free", QuickS: 150, ThorS: 1500}, Sub{Name: "C18/sched", Mode: "controlled", QuickS: 80, ThorS: 900})
	add("C19", Sub{Name: "C19/enum", Mode: "free", QuickS: 150, ThorS: 1500})
	add("C20", Sub{Name: "C20/hist", Mode: "free", QuickS: 150, ThorS: 1500})
}

// Rule describes, per property, how states are enumerated and what makes one
// non-trivial (copied into the evidence).
var Rule = map[string]string{}

var common = []string{
	"the instrumenter's rewrites preserve the engine's semantics (go/chan/select/sync become shim calls; channels stay real channels)",
	"the cooperative scheduler serialises memory accesses: data races and weak-memory effects are invisible to it (C12's race pass covers those separately)",
	"bounds are small scopes as listed under coverage.bounds; behaviours needing more deviations / deeper expressions / other values are not covered",
}

func Assumptions(prop string) []string {
	out := append([]string(nil), common...)
	out = append(out, extra[prop]...)
	return out
}

var extra = map[string][]string{}

func init() {
	enum := "Explicit-state enumeration: states are (query, inline dataset, window, options[, fault plan]) tuples produced by applying productions to smaller states (grammar productions over canonically printed queries, data-layout productions, one more fault); duplicates are removed by canonical form (parser.ParseExpr(q).String()); `transitions` counts productions applied, `states` the distinct states executed on the real engine (every state is an execution of the implementation, so traces_validated_against_impl = executions). "
	sched := "Schedule exploration: stateless DFS over scheduling decisions of the instrumented real engine under a cooperative scheduler; a state is one complete execution (schedule-tree leaf), `transitions` the scheduling steps executed; iterative deviation bounding (bounds per scenario under coverage.bounds); every prefix replay is verified step by step (a divergence is a harness error). "
	Rule["C01"] = enum + "Non-trivial: the reference result is non-empty. Oracle: equality with promql.NewEngine on the same storage."
	Rule["C02"] = enum + "Non-trivial: the reference returns at least one point (the layout puts a sample within reach of a step)."
	Rule["C03"] = enum + "Non-trivial: the reference returns at least one point."
	Rule["C04"] = enum + "Non-trivial: the reference returns at least one point (a non-empty group exists at some step)."
	Rule["C05"] = enum + "Non-trivial: the reference returns at least one point (some pair matches and passes the filter); error cases are counted separately in outcome_counts."
	Rule["C06"] = enum + "Non-trivial: the reference returns at least one point."
	Rule["C07"] = enum + "A state is one (query, dataset, window) triple; per state the range query, one instant query per grid step and 3 (thorough: up to 78) sub-window queries run on the real engine. Non-trivial: the range result is non-empty."
	Rule["C08"] = enum + "Per state 5 creations/executions (reference, fallback on, fallback off, creation over a panicking storage with fallback on and off). Non-trivial: the reference result is non-empty."
	Rule["C09"] = enum + "Per state the query runs under NoOptimizers and under each of 8 optimizer subsets. Non-trivial: the unoptimised result is non-empty."
	Rule["C10"] = enum + "A state is (query, data variant, assignment of series to engines, window); central and distributed engine both run. Non-trivial: the central result is non-empty."
	Rule["C11"] = sched + "Non-trivial: the schedule differs from the default schedule in at least one decision. Plus " + enum + "(configuration half: GOMAXPROCS x series count x storage order x junk series)."
	Rule["C12"] = sched + "Non-trivial: non-default schedule. The race half counts one state per round of 34 concurrent queries."
	Rule["C13"] = enum + "Fault plans address (callback kind, select, series, occurrence) of every callback the fault-free run reaches. Non-trivial: the fault actually fired (or, for parameters, the reference result is non-empty)."
	Rule["C14"] = sched + "The cancellation event is placed before scheduling step k for every k (outer loop). Non-trivial: non-default schedule or an event that fired. Plus fault enumeration of cancel/block at every storage callback in free mode."
	Rule["C15"] = enum + "Non-trivial: the injected storage error fired."
	Rule["C16"] = enum + "Non-trivial: every evaluated state (each compares at least one Select call)."
	Rule["C17"] = enum + "Non-trivial: the fault fired / the history has 3 queries."
	Rule["C18"] = enum + "Per state one monitored execution plus 5 call-order drives of the physical plan. Non-trivial: the result is non-empty."
	Rule["C19"] = enum + "Non-trivial: a successful non-empty result (the validator has something to check)."
	Rule["C20"] = "Explicit-state enumeration of operation histories: all sequences over the operation alphabet up to the depth bound x pool policies; every operation executes on the real long-lived engine and on a fresh engine. Non-trivial: histories of length >= 2."
	extra["C12"] = []string{"race half: dynamic race detection on free-running executions (not exhaustive)"}
	extra["C01"] = []string{"reference model = promql.NewEngine v0.40.1 on the same model storage; values compared to 1e-9 relative"}
}
