// Package plan lists, per property, the sub-checks the driver runs and the process
// mode each needs. It imports nothing from the engine so that the driver can be built
// once at setup time.
package plan

type Sub struct {
	Name   string // e.g. "C11/sched"
	Mode   string // free | controlled | race
	QuickS int    // internal deadline (seconds), quick tier
	ThorS  int    // internal deadline (seconds), thorough tier
	Shards int    // 0 = all cores
}

var Props = []string{"C01", "C02", "C03", "C04", "C05", "C06", "C07", "C08", "C09", "C10",
	"C11", "C12", "C13", "C14", "C15", "C16", "C17", "C18", "C19", "C20"}

var table = map[string][]Sub{}

func add(prop string, subs ...Sub) { table[prop] = append(table[prop], subs...) }

func Subs(prop string) []Sub { return table[prop] }

func init() {
	add("C01", Sub{Name: "C01/enum", Mode: "free", QuickS: 150, ThorS: 1500})
	add("C12", Sub{Name: "C12/sched", Mode: "controlled", QuickS: 100, ThorS: 1200}, Sub{Name: "C12/race", Mode: "race", QuickS: 100, ThorS: 600, Shards: 8})
	add("C13", Sub{Name: "C13/fault", Mode: "free", QuickS: 100, ThorS: 900}, Sub{Name: "C13/params", Mode: "free", QuickS: 100, ThorS: 600})
	add("C15", Sub{Name: "C15/fault", Mode: "free", QuickS: 120, ThorS: 900})
	add("C17", Sub{Name: "C17/fault", Mode: "free", QuickS: 120, ThorS: 900})
	add("C14", Sub{Name: "C14/sched", Mode: "controlled", QuickS: 120, ThorS: 1500}, Sub{Name: "C14/cancel", Mode: "free", QuickS: 100, ThorS: 600})
	add("C02", Sub{Name: "C02/enum", Mode: "free", QuickS: 150, ThorS: 1500})
	add("C03", Sub{Name: "C03/enum", Mode: "free", QuickS: 150, ThorS: 1500})
	add("C04", Sub{Name: "C04/enum", Mode: "free", QuickS: 150, ThorS: 1500})
	add("C05", Sub{Name: "C05/enum", Mode: "free", QuickS: 150, ThorS: 1500})
	add("C06", Sub{Name: "C06/enum", Mode: "free", QuickS: 150, ThorS: 1500})
	add("C07", Sub{Name: "C07/enum", Mode: "free", QuickS: 150, ThorS: 1500})
	add("C08", Sub{Name: "C08/enum", Mode: "free", QuickS: 150, ThorS: 900})
	add("C09", Sub{Name: "C09/enum", Mode: "free", QuickS: 150, ThorS: 1700})
	add("C10", Sub{Name: "C10/enum", Mode: "free", QuickS: 150, ThorS: 1500})
	add("C16", Sub{Name: "C16/enum", Mode: "free", QuickS: 150, ThorS: 1200})
	add("C11", Sub{Name: "C11/sched", Mode: "controlled", QuickS: 100, ThorS: 1500}, Sub{Name: "C11/enum", Mode: "free", QuickS: 120, ThorS: 1200})
	add("C18", Sub{Name: "C18/enum", Mode: "free", QuickS: 150, ThorS: 1500})
	add("C19", Sub{Name: "C19/enum", Mode: "free", QuickS: 150, ThorS: 1500})
	add("C20", Sub{Name: "C20/hist", Mode: "free", QuickS: 150, ThorS: 1500})
}

// Rule describes, per property, how states are enumerated and what makes one
// non-trivial (copied into the evidence).
var Rule = map[string]string{}

var common = []string{
	"the instrumenter's rewrites preserve the engine's semantics (go/chan/select/sync become shim calls; channels stay real channels)",
	"the cooperative scheduler serialises memory accesses: data races and weak-memory effects are invisible to it (C12's race pass covers those separately)",
	"bounds are small scopes as listed under coverage.bounds; behaviours needing more deviations / deeper expressions / other values are not covered",
}

func Assumptions(prop string) []string {
	out := append([]string(nil), common...)
	out = append(out, extra[prop]...)
	return out
}

var extra = map[string][]string{}
