// Package mstore is the model storage: the closed environment of every check. One
// storage.Queryable used by the engine under test and by the reference engine, with
// every source of environment nondeterminism (series order, faults, blocking, hints
// truncation) owned by the harness.
package mstore

import (
	"time"
	"context"
	"errors"
	"fmt"
	"sort"
	"strings"
	"sync"

	"github.com/prometheus/prometheus/model/histogram"
	"github.com/prometheus/prometheus/model/labels"
	"github.com/prometheus/prometheus/storage"
	"github.com/prometheus/prometheus/tsdb/chunkenc"
)

type Sample struct {
	T int64
	V float64
}

type Series struct {
	Labels  labels.Labels
	Samples []Sample
}

// ErrInjected is the error every "error" fault returns (wrapped with its address).
var ErrInjected = errors.New("mstore: injected storage failure")

// ErrAborted is what a context-honouring storage returns with OwnAbortErr.
var ErrAborted = errors.New("mstore: call aborted")

// Fault addresses one storage callback and says what happens there.
type Fault struct {
	Kind   string `json:"kind"`   // querier | select | set-next | set-err | labels | iterator | seek | next | at | iter-err | close
	Sel    string `json:"sel"`    // selector key; "" matches any
	Series int    `json:"series"` // storage index; -1 matches any
	Nth    int    `json:"nth"`    // 0-based occurrence of (kind, sel, series)
	Action string `json:"action"` // error | panic-runtime | panic-nil | panic-string | cancel | block
}

func (f Fault) key() string { return fmt.Sprintf("%s|%s|%d", f.Kind, f.Sel, f.Series) }

// SelectRec is one recorded Select call.
type SelectRec struct {
	Mint, Maxt int64 // of the Querier
	Matchers   string
	Hints      storage.SelectHints
	HasHints   bool
}

func (r SelectRec) String() string {
	h := r.Hints
	return fmt.Sprintf("%s q[%d,%d] h[%d,%d] step=%d range=%d func=%q by=%v grouping=%v", r.Matchers, r.Mint, r.Maxt,
		h.Start, h.End, h.Step, h.Range, h.Func, h.By, h.Grouping)
}

type Store struct {
	Series []Series

	// TruncateToHints drops every sample outside [hints.Start, hints.End] of the select.
	TruncateToHints bool
	// ShareLabels hands out the very same label slices on every call (C17).
	ShareLabels bool
	// NoTrim disables the trimming of samples to the querier's [mint, maxt], which a
	// real TSDB querier performs and which is on by default.
	NoTrim bool
	// HonorCtx makes every error-capable callback fail with the context's error once
	// the context is cancelled (remote-read style storages do; a TSDB mostly does not).
	HonorCtx bool
	// OwnAbortErr: with HonorCtx, the error is ErrAborted instead of the context's.
	OwnAbortErr bool

	Faults []Fault
	// Cancel is invoked by a "cancel" fault.
	Cancel func()
	// Hook, if set, is called at every callback (used for yield points).
	Hook func()

	mu       sync.Mutex
	counts   map[string]int
	Record   bool
	Reached  map[string]int // kind|sel|series -> number of calls (when Record)
	Opens    int
	Closes   int
	OpenNow  int
	Selects  []SelectRec
	Fired    []string
	Queriers []*querier
	OpenAtReturn int
}

func New(series []Series) *Store { return &Store{Series: series} }

// Reset clears the per-query instrumentation (not the data).
func (s *Store) Reset() {
	s.mu.Lock()
	defer s.mu.Unlock()
	s.counts = nil
	s.Reached = nil
	s.Opens, s.Closes, s.OpenNow = 0, 0, 0
	s.Selects = nil
	s.Fired = nil
	s.Queriers = nil
}

type action int

const (
	actNone action = iota
	actError
	actPanicRuntime
	actPanicNil
	actPanicString
	actCancel
	actBlock
)

// tick registers one callback and returns the injected error, if any. It panics or
// blocks itself for the respective actions.
func (s *Store) tick(ctx context.Context, kind, sel string, series int) error {
	if s.Hook != nil {
		s.Hook()
	}
	if s.HonorCtx && ctx != nil && ctx.Err() != nil {
		switch kind {
		case "querier", "select", "set-next", "set-err", "iterator", "seek", "next":
			if s.OwnAbortErr {
				// a storage that reports an aborted call with an error of its own
				return ErrAborted
			}
			return ctx.Err()
		}
	}
	if len(s.Faults) == 0 && !s.Record {
		return nil
	}
	key := fmt.Sprintf("%s|%s|%d", kind, sel, series)
	s.mu.Lock()
	if s.counts == nil {
		s.counts = map[string]int{}
	}
	n := s.counts[key]
	s.counts[key] = n + 1
	if s.Record {
		if s.Reached == nil {
			s.Reached = map[string]int{}
		}
		s.Reached[key] = n + 1
	}
	var hit *Fault
	for i := range s.Faults {
		f := &s.Faults[i]
		if f.Kind == kind && (f.Sel == "" || f.Sel == sel) && (f.Series < 0 || f.Series == series) && f.Nth == n {
			hit = f
			break
		}
	}
	if hit != nil {
		s.Fired = append(s.Fired, key+fmt.Sprintf("#%d:%s", n, hit.Action))
	}
	s.mu.Unlock()
	if hit == nil {
		return nil
	}
	switch hit.Action {
	case "error":
		return fmt.Errorf("%w at %s#%d", ErrInjected, key, n)
	case "panic-runtime":
		var a []int
		_ = a[len(key)+5] // genuine runtime.Error (index out of range)
	case "panic-nil":
		var p *Series
		_ = p.Labels // genuine nil dereference
	case "panic-string":
		panic("mstore: injected string panic at " + key)
	case "slow":
		// a slow storage call (never an oracle: it only widens the window in which
		// something else can happen while this call is in flight)
		time.Sleep(30 * time.Millisecond)
	case "cancel":
		if s.Cancel != nil {
			s.Cancel()
		}
	case "block":
		// a storage that blocks until the query is cancelled; the cancellation comes
		// from outside while the callback is blocked
		if ctx != nil {
			if s.Cancel != nil {
				go s.Cancel()
			}
			<-ctx.Done()
			if s.OwnAbortErr {
				return ErrAborted
			}
			return ctx.Err()
		}
	}
	return nil
}

func (s *Store) Querier(ctx context.Context, mint, maxt int64) (storage.Querier, error) {
	if err := s.tick(ctx, "querier", "", -1); err != nil {
		return nil, err
	}
	q := &querier{s: s, ctx: ctx, mint: mint, maxt: maxt}
	s.mu.Lock()
	s.Opens++
	s.OpenNow++
	s.Queriers = append(s.Queriers, q)
	s.mu.Unlock()
	return q, nil
}

type querier struct {
	s          *Store
	ctx        context.Context
	mint, maxt int64
	closed     int
}

func (q *querier) Close() error {
	q.s.mu.Lock()
	q.closed++
	q.s.Closes++
	q.s.OpenNow--
	q.s.mu.Unlock()
	return q.s.tick(q.ctx, "close", "", -1)
}

// CloseCounts returns, per opened querier, how often it was closed.
func (s *Store) CloseCounts() []int {
	s.mu.Lock()
	defer s.mu.Unlock()
	out := make([]int, len(s.Queriers))
	for i, q := range s.Queriers {
		out[i] = q.closed
	}
	return out
}

func (q *querier) LabelValues(string, ...*labels.Matcher) ([]string, storage.Warnings, error) {
	return nil, nil, nil
}
func (q *querier) LabelNames(...*labels.Matcher) ([]string, storage.Warnings, error) {
	return nil, nil, nil
}

func matcherString(ms []*labels.Matcher) string {
	ss := make([]string, len(ms))
	for i, m := range ms {
		ss[i] = m.String()
	}
	sort.Strings(ss)
	return "{" + strings.Join(ss, ",") + "}"
}

func (q *querier) Select(sortSeries bool, hints *storage.SelectHints, ms ...*labels.Matcher) storage.SeriesSet {
	s := q.s
	rec := SelectRec{Mint: q.mint, Maxt: q.maxt, Matchers: matcherString(ms)}
	if hints != nil {
		rec.Hints = *hints
		rec.Hints.Grouping = append([]string(nil), hints.Grouping...)
		rec.HasHints = true
	}
	sel := fmt.Sprintf("%s@%d,%d", rec.Matchers, q.mint, q.maxt)
	s.mu.Lock()
	s.Selects = append(s.Selects, rec)
	s.mu.Unlock()
	set := &seriesSet{q: q, sel: sel, idx: -1}
	if err := s.tick(q.ctx, "select", sel, -1); err != nil {
		set.err = err
		return set
	}
	lo, hi := int64(-1<<62), int64(1<<62)
	if !s.NoTrim {
		lo, hi = q.mint, q.maxt
	}
	if s.TruncateToHints && hints != nil {
		if hints.Start > lo {
			lo = hints.Start
		}
		if hints.End < hi {
			hi = hints.End
		}
	}
	for i := range s.Series {
		ser := &s.Series[i]
		ok := true
		for _, m := range ms {
			if !m.Matches(ser.Labels.Get(m.Name)) {
				ok = false
				break
			}
		}
		if ok {
			set.items = append(set.items, &series{s: s, ctx: q.ctx, sel: sel, idx: i, lo: lo, hi: hi})
		}
	}
	if sortSeries {
		sort.SliceStable(set.items, func(a, b int) bool {
			return labels.Compare(s.Series[set.items[a].idx].Labels, s.Series[set.items[b].idx].Labels) < 0
		})
	}
	return set
}

type seriesSet struct {
	q     *querier
	sel   string
	items []*series
	idx   int
	err   error
}

func (ss *seriesSet) Next() bool {
	if ss.err != nil {
		return false
	}
	if err := ss.q.s.tick(ss.q.ctx, "set-next", ss.sel, -1); err != nil {
		ss.err = err
		return false
	}
	ss.idx++
	return ss.idx < len(ss.items)
}
func (ss *seriesSet) At() storage.Series { return ss.items[ss.idx] }
func (ss *seriesSet) Err() error {
	if ss.err != nil {
		return ss.err
	}
	return ss.q.s.tick(ss.q.ctx, "set-err", ss.sel, -1)
}
func (ss *seriesSet) Warnings() storage.Warnings { return nil }

type series struct {
	s      *Store
	ctx    context.Context
	sel    string
	idx    int
	lo, hi int64
}

func (x *series) Labels() labels.Labels {
	x.s.tick(x.ctx, "labels", x.sel, x.idx)
	if x.s.ShareLabels {
		return x.s.Series[x.idx].Labels
	}
	return x.s.Series[x.idx].Labels.Copy()
}

func (x *series) Iterator() chunkenc.Iterator {
	it := &iter{x: x, i: -1}
	if err := x.s.tick(x.ctx, "iterator", x.sel, x.idx); err != nil {
		it.err = err
	}
	src := x.s.Series[x.idx].Samples
	if x.lo > -1<<62 || x.hi < 1<<62 {
		var kept []Sample
		for _, sm := range src {
			if sm.T >= x.lo && sm.T <= x.hi {
				kept = append(kept, sm)
			}
		}
		src = kept
	}
	it.samples = src
	return it
}

type iter struct {
	x       *series
	samples []Sample
	i       int
	err     error
}

func (it *iter) Next() chunkenc.ValueType {
	if it.err != nil {
		return chunkenc.ValNone
	}
	if err := it.x.s.tick(it.x.ctx, "next", it.x.sel, it.x.idx); err != nil {
		it.err = err
		return chunkenc.ValNone
	}
	if it.i+1 >= len(it.samples) {
		it.i = len(it.samples)
		return chunkenc.ValNone
	}
	it.i++
	return chunkenc.ValFloat
}

func (it *iter) Seek(t int64) chunkenc.ValueType {
	if it.err != nil {
		return chunkenc.ValNone
	}
	if err := it.x.s.tick(it.x.ctx, "seek", it.x.sel, it.x.idx); err != nil {
		it.err = err
		return chunkenc.ValNone
	}
	if it.i < 0 {
		it.i = 0
	}
	for it.i < len(it.samples) && it.samples[it.i].T < t {
		it.i++
	}
	if it.i >= len(it.samples) {
		return chunkenc.ValNone
	}
	return chunkenc.ValFloat
}

func (it *iter) At() (int64, float64) {
	if it.i < 0 || it.i >= len(it.samples) {
		return 0, 0
	}
	return it.samples[it.i].T, it.samples[it.i].V
}
func (it *iter) AtHistogram() (int64, *histogram.Histogram)           { return 0, nil }
func (it *iter) AtFloatHistogram() (int64, *histogram.FloatHistogram) { return 0, nil }
func (it *iter) AtT() int64 {
	t, _ := it.At()
	return t
}
func (it *iter) Err() error {
	if it.err != nil {
		return it.err
	}
	return nil
}

// Snapshot returns a deep copy of all label sets (C17 compares against it).
func (s *Store) Snapshot() []labels.Labels {
	out := make([]labels.Labels, len(s.Series))
	for i := range s.Series {
		out[i] = s.Series[i].Labels.Copy()
	}
	return out
}

// OpenAtReturn is the number of queriers open at the moment OpenAtReturnSnapshot was
// called (the harness calls it right after Exec returns).
func (s *Store) OpenAtReturnSnapshot() {
	s.mu.Lock()
	s.OpenAtReturn = s.OpenNow
	s.mu.Unlock()
}
