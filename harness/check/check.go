// Package check is the worker-side framework: one Ctx per (property, tier, shard),
// counters for the evidence, failure confirmation and classification against the
// known findings.
package check

import (
	"encoding/json"
	"fmt"
	"os"
	"sort"
	"strings"
	"time"

	"verif/harness/core"
	"verif/harness/explore"
	"verif/harness/findings"
)

type Failure struct {
	Prop     string            `json:"property"`
	Kind     string            `json:"kind"` // enum | sched | op | history
	Symptom  string            `json:"symptom"`
	Detail   string            `json:"detail"`
	Case     *core.Case        `json:"case,omitempty"`
	Scenario *explore.Scenario `json:"scenario,omitempty"`
	Sched    *explore.Sched    `json:"sched,omitempty"`
	History  json.RawMessage   `json:"history,omitempty"`
	Features []string          `json:"features,omitempty"`
	Sub      string            `json:"sub,omitempty"` // sub-check that produced it
}

type KnownHit struct {
	ID      string   `json:"id"`
	Title   string   `json:"title"`
	Count   int64    `json:"count"`
	Witness *Failure `json:"witness"`
}

type Report struct {
	Prop        string               `json:"property"`
	Tier        string               `json:"tier"`
	Shard       int                  `json:"shard"`
	NShards     int                  `json:"nshards"`
	Evaluations int64                `json:"evaluations"`
	States      int64                `json:"states"`
	Transitions int64                `json:"transitions"`
	Traces      int64                `json:"traces_validated_against_impl"`
	Nontrivial  int64                `json:"distinct_nontrivial"`
	Exhaustive  bool                 `json:"exhaustive"`
	Notes       []string             `json:"notes,omitempty"`
	Outcomes    map[string]int64     `json:"outcomes,omitempty"`
	Known       map[string]*KnownHit `json:"known,omitempty"`
	Viol        []Failure            `json:"violations,omitempty"`
	ViolCount   int64                `json:"violation_count"`
	Samples     []json.RawMessage    `json:"samples,omitempty"`
	Extra       map[string]int64     `json:"extra,omitempty"`
	Bounds      map[string]any       `json:"bounds,omitempty"`
	HarnessErr  string               `json:"harness_error,omitempty"`
	WallS       float64              `json:"wall_s"`
}

type Ctx struct {
	Prop     string
	Tier     string
	Shard    int
	NShards  int
	Seed     int64
	Findings *findings.Set
	Rep      *Report
	start    time.Time
	deadline time.Time
	progress *os.File
	idx      int
	seen     map[string]bool
	skips    map[string]bool
	dump     *os.File
}

func NewCtx(prop, tier string, shard, nshards int, seed int64, fs *findings.Set, progressPath string, budget time.Duration) *Ctx {
	c := &Ctx{Prop: prop, Tier: tier, Shard: shard, NShards: nshards, Seed: seed, Findings: fs, start: time.Now()}
	c.deadline = c.start.Add(budget)
	c.Rep = &Report{Prop: prop, Tier: tier, Shard: shard, NShards: nshards, Exhaustive: true,
		Outcomes: map[string]int64{}, Known: map[string]*KnownHit{}, Extra: map[string]int64{}, Bounds: map[string]any{}}
	if progressPath != "" {
		c.progress, _ = os.Create(progressPath)
	}
	c.seen = map[string]bool{}
	if d := os.Getenv("VERIF_DUMP"); d != "" {
		c.dump, _ = os.OpenFile(fmt.Sprintf("%s.%d", d, shard), os.O_CREATE|os.O_APPEND|os.O_WRONLY, 0o644)
	}
	return c
}

func (c *Ctx) Thorough() bool { return c.Tier == "thorough" }

// Mine implements the sharding of an enumerated space: the i-th element of the space
// (counted identically in every shard) belongs to exactly one shard.
func (c *Ctx) Mine() bool {
	m := c.idx%c.NShards == c.Shard
	c.idx++
	return m
}

// Expired reports that the internal deadline has passed; the run then ends with
// exhaustive=false.
func (c *Ctx) Expired() bool {
	// enough evidence: any violation already decides the check, and violating cases
	// (hangs in particular) can be very slow
	if c.Rep.ViolCount >= 40 {
		if c.Rep.Exhaustive {
			c.Rep.Exhaustive = false
			c.Note("stopped after %d violations in this shard; remaining states not explored", c.Rep.ViolCount)
		}
		return true
	}
	if time.Now().After(c.deadline) {
		if c.Rep.Exhaustive {
			c.Rep.Exhaustive = false
			c.Note("internal deadline reached after %.0fs; remaining states not explored", time.Since(c.start).Seconds())
		}
		return true
	}
	return false
}

func (c *Ctx) Note(f string, a ...any) {
	s := fmt.Sprintf(f, a...)
	for _, n := range c.Rep.Notes {
		if n == s {
			return
		}
	}
	if len(c.Rep.Notes) < 40 {
		c.Rep.Notes = append(c.Rep.Notes, s)
	}
}

// Progress records the case about to run so that the driver can attribute a crash.
// It returns false if this very case killed an earlier attempt of this shard and must
// be skipped (the driver has already recorded it).
func (c *Ctx) Progress(v any) bool {
	if c.progress == nil {
		return true
	}
	b, _ := json.Marshal(v)
	if c.skips != nil && c.skips[string(b)] {
		return false
	}
	c.progress.WriteAt(b, 0)
	c.progress.Truncate(int64(len(b)))
	return true
}

// LoadSkips reads the cases that killed earlier attempts of this shard.
func (c *Ctx) LoadSkips(path string) {
	if path == "" {
		return
	}
	b, err := os.ReadFile(path)
	if err != nil {
		return
	}
	c.skips = map[string]bool{}
	for _, ln := range strings.Split(string(b), "\n") {
		if ln != "" {
			c.skips[ln] = true
		}
	}
}

func (c *Ctx) Sample(v any) {
	if len(c.Rep.Samples) < 4 {
		b, _ := json.Marshal(v)
		c.Rep.Samples = append(c.Rep.Samples, b)
	}
}

// Fail records a confirmed failure, classifying it against the known findings.
func (c *Ctx) Fail(f Failure) {
	if f.Prop == "" {
		f.Prop = c.Prop
	}
	if f.Case != nil && f.Features == nil {
		f.Features = core.Features(f.Case)
	}
	if f.Scenario != nil && f.Features == nil {
		f.Features = core.Features(&f.Scenario.Case)
		if f.Scenario.Event != "" {
			f.Features = append(f.Features, "event:"+f.Scenario.Event, "event:cancel")
		}
		if f.Scenario.Two != nil {
			f.Features = append(f.Features, "two-queries")
		}
		sort.Strings(f.Features)
	}
	if kf := c.Findings.Match(f.Prop, f.Features, f.Symptom); kf != nil {
		h := c.Rep.Known[kf.ID]
		if h == nil {
			cp := f
			h = &KnownHit{ID: kf.ID, Title: kf.Title, Witness: &cp}
			c.Rep.Known[kf.ID] = h
		}
		h.Count++
		return
	}
	c.Rep.ViolCount++
	if c.dump != nil {
		b, _ := json.Marshal(map[string]any{"prop": f.Prop, "symptom": f.Symptom, "detail": f.Detail, "case": f.Case, "scenario": f.Scenario, "sched": f.Sched, "features": f.Features})
		c.dump.Write(append(b, '\n'))
	}
	// keep few, but keep diverse symptoms
	n := 0
	for _, v := range c.Rep.Viol {
		if v.Symptom == f.Symptom {
			n++
		}
	}
	if len(c.Rep.Viol) < 60 && n < 6 {
		c.Rep.Viol = append(c.Rep.Viol, f)
	}
}

func (c *Ctx) Finish() *Report {
	c.Rep.WallS = time.Since(c.start).Seconds()
	if c.progress != nil {
		c.progress.Close()
	}
	return c.Rep
}

// Seen de-duplicates canonical states within this worker.
func (c *Ctx) Seen(key string) bool {
	if c.seen[key] {
		return true
	}
	c.seen[key] = true
	return false
}

type Func func(c *Ctx)

var Registry = map[string]Func{}

func Register(prop string, f Func) { Registry[prop] = f }
