package check

import (
	"encoding/json"
	"fmt"
	"os"

	"verif/harness/findings"
)

// Replayers are registered by the checks package, keyed by Failure.Kind.
var Replayers = map[string]func(f *Failure) (symptom, detail string){}

// Replay re-runs one recorded failure against the current build. Exit status 1 means
// the failure reproduces, 0 that it does not.
func Replay(path string, fs *findings.Set) int {
	b, err := os.ReadFile(path)
	if err != nil {
		fmt.Fprintln(os.Stderr, "replay:", err)
		return 2
	}
	var f Failure
	if err := json.Unmarshal(b, &f); err != nil {
		fmt.Fprintln(os.Stderr, "replay:", err)
		return 2
	}
	r, ok := Replayers[f.Kind+":"+f.Sub]
	if !ok {
		r, ok = Replayers[f.Kind]
	}
	if !ok {
		fmt.Fprintln(os.Stderr, "replay: no replayer for kind", f.Kind)
		return 2
	}
	sym, det := r(&f)
	if sym == "" {
		fmt.Printf("REPLAY property=%s: does not reproduce (recorded symptom %s)\n", f.Prop, f.Symptom)
		return 0
	}
	fmt.Printf("REPLAY property=%s symptom=%s\n  %s\n", f.Prop, sym, det)
	return 1
}
