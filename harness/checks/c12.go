package checks

import (
	"context"
	"fmt"
	"strings"
	"sync"
	"sync/atomic"
	"time"

	"verif/harness/check"
	"verif/harness/core"
	"verif/harness/explore"
	"verif/harness/gen"
	"verif/harness/mstore"
)

// ---------------------------------------------------------------------------------
// C12, schedule half: two queries on one engine and one storage

type pairScenario struct {
	name   string
	q1, q2 string
	w1, w2 core.Window
	procs  int
	dq, dt int
	faults []mstore.Fault
}

func c12Pairs() []pairScenario {
	r2 := core.Range(10000, 30000, 2)
	r12 := core.Range(10000, 30000, 12)
	inst := core.Instant(40000)
	return []pairScenario{
		{"P1:a|a", `a`, `a`, r2, r2, 4, 2, 2, nil},
		{"P2:a|sum by (l)(a)", `a`, `sum by (l) (a)`, r2, r2, 2, 2, 2, nil},
		{"P3:rate range|a instant", `rate(a[1m])`, `a`, r2, inst, 2, 1, 2, nil},
		{"P4:a+b|a", `a + on (l) group_left b`, `a`, r2, r2, 2, 1, 1, nil},
		{"P5:sum(a)|topk(1,a)", `sum(a)`, `topk(1, a)`, r2, r2, 2, 2, 2, nil},
		{"P6:a 12 steps|a 12 steps", `a`, `a`, r12, r12, 2, 1, 1, nil},
		{"P7:-a|clamp_min(a,scalar(b))", `-a`, `clamp_min(a, scalar(b{l="0"}))`, r2, r2, 2, 1, 1, nil},
		// one of the two queries hits a storage failure: the other one must not notice, and the
		// failing one must fail in every interleaving
		{"P8:a+b with a failing select|a", `a + on (l) group_left b`, `a{l="1"}`, r2, r2, 2, 1, 2, []mstore.Fault{{Kind: "select", Sel: `{__name__="a"}@-290000,40000`, Series: -1, Nth: 0, Action: "error"}}},
		// delay bounding: one deviation stalls a thread across many hand-offs of the others
		{"P10:sum by (l)(sum by (l,m)(a)) 40 steps|sum by (l)(a)/delays", `sum by (l) (sum by (l, m) (a))`, `sum by (l) (a)`, core.Range(10000, 30000, 40), r2, 2, 1, 1, nil},
		// the same text with @ over two different windows (anything cached per query text shows)
		{"P12:a@end()+a|same text, later window", `a @ end() + a`, `a @ end() + a`, r2, core.Range(70000, 30000, 2), 2, 1, 1, nil},
		{"P11:a 12 steps|sum by (l)(a) 12 steps/delays", `a`, `sum by (l) (a)`, r12, r12, 2, 1, 2, nil},
		{"P9:sum by (l)(a) with a failing iterator|b", `sum by (l) (a)`, `b`, r2, r2, 2, 1, 2, []mstore.Fault{{Kind: "seek", Series: 1, Nth: 0, Action: "error"}}},
	}
}

func init() {
	check.Register("C12/sched", func(c *check.Ctx) {
		for _, ps := range c12Pairs() {
			data := gen.SchedData(ps.w1.NSteps() + 3)
			o := core.Opts{Procs: ps.procs, Optimizers: "none"}
			c1 := core.Case{Q: ps.q1, Data: data, W: ps.w1, O: o, Faults: ps.faults}
			c2 := core.Case{Q: ps.q2, Data: data, W: ps.w2, O: o}
			solo1 := explore.RunOnce(&explore.Scenario{Name: "solo1", Case: c1}, explore.Sched{EventStep: -1})
			solo2 := explore.RunOnce(&explore.Scenario{Name: "solo2", Case: c2}, explore.Sched{EventStep: -1})
			s := schedScenario{Scenario: explore.Scenario{Name: ps.name, Case: c1, Two: &c2, Delay: strings.HasSuffix(ps.name, "/delays")}, DQuick: ps.dq, DThorough: ps.dt}
			runSched(c, &s, "C12", nil, func(root *explore.Obs) func(o *explore.Obs, sd explore.Sched) (string, string) {
				return func(o *explore.Obs, sd explore.Sched) (string, string) {
					if sym, det := baseOracle(o); sym != "" {
						return sym, det
					}
					if sym, det := core.Diff(solo1.Res, o.Res, false); sym != "" {
						return "isolation:" + sym, "first query differs from its solo result: " + det
					}
					if o.Res2 == nil {
						return "isolation:no-result", "second query returned nothing"
					}
					if sym, det := core.Diff(solo2.Res, o.Res2, false); sym != "" {
						return "isolation:" + sym, "second query differs from its solo result: " + det
					}
					for _, m := range o.Mon {
						if m.Clause == "K6" {
							return "contract:K6", m.Detail
						}
					}
					return "", ""
				}
			})
			if c.Expired() || c.Rep.HarnessErr != "" {
				return
			}
		}
	})
}

// ---------------------------------------------------------------------------------
// C12, race half: free-running -race build of the uninstrumented engine

type raceJob struct {
	cs     core.Case
	cancel bool
	solo   *core.Result
}

func init() {
	check.Register("C12/race", func(c *check.Ctx) {
		// every shard runs the same body with a different GOMAXPROCS / repetition
		procs := []int{2, 16, 4, 8}[c.Shard%4]
		// D1 plus the histogram buckets of the fault dataset
		data := append(append([]core.SeriesSpec(nil), dataset("D1")...), faultData()[5:]...)
		w := core.Range(10000, 30000, 12)
		mk := func(q string, w core.Window, fallback bool, ndist int) raceJob {
			cs := core.Case{Q: q, Data: data, W: w, O: core.Opts{Procs: procs, Fallback: fallback}}
			if ndist > 0 {
				cs.NDist = ndist
				cs.Dist = []int{0, 1, 0, 1, 0, 1}
			}
			return raceJob{cs: cs}
		}
		var jobs []raceJob
		for i := 0; i < 4; i++ {
			jobs = append(jobs, mk(`a`, w, false, 0), mk(`sum by (l) (rate(a[1m]))`, w, false, 0), mk(`a + on (l) group_left b`, w, false, 0),
				mk(`topk(1, a)`, core.Instant(45000), false, 0), mk(`count_values("v", a)`, w, true, 0), mk(`-a + scalar(sum(b))`, w, false, 0),
				mk(`sum by (l) (a)`, w, false, 2), mk(`histogram_quantile(0.5, a)`, core.Instant(45000), false, 0),
				mk(`a{l="0"} + a`, w, false, 0), mk(`sum(a{m="1"}) / sum(a)`, w, false, 0),
				mk(`sum by (l) (sum by (l, m) (a))`, core.Range(0, 15000, 45), false, 0), mk(`max(-sum by (l) (rate(a[1m])))`, core.Range(0, 15000, 45), false, 0),
				// remote parts answered by the Prometheus fallback of the remote engines, next to
				// other Prometheus evaluations (its point slices are pooled process-wide)
				mk(`sum by (l) (round(a))`, w, true, 2), mk(`round(a)`, w, true, 2), mk(`max by (l) (round(rate(a[1m])))`, core.Range(0, 15000, 45), true, 2), mk(`round(b)`, w, true, 0),
				mk(`a @ end() + a`, core.Range(10000+int64(i)*30000, 30000, 12), false, 0), mk(`sum(a @ start())`, core.Range(int64(i)*45000, 45000, 5), false, 0),
				mk(`histogram_quantile(0.5, h_bucket)`, w, false, 0), mk(`histogram_quantile(0.9, rate(h_bucket[1m]))`, w, false, 0))
		}
		// every plan shape of the fault checks, once
		for _, q := range planShapes(true) {
			jobs = append(jobs, mk(q, w, false, 0))
		}
		for i := 0; i < 0; i++ {
			jobs = append(jobs, mk(`a`, w, false, 0))
		}
		for i := range jobs {
			// never a fallback job: Query.Cancel of the Prometheus engine reads a field that its
			// Exec writes without synchronisation (not the code under test)
			if i%12 == 7 && !jobs[i].cs.O.Fallback {
				jobs[i].cancel = true
			}
		}
		st, _ := core.BuildStore(data)
		core.SetProcs(procs)
		// solo results first
		for i := range jobs {
			if !jobs[i].cancel {
				jobs[i].solo = core.RunEngine(&jobs[i].cs, st).Res
			}
		}
		rounds := 25
		if c.Thorough() {
			rounds = 300
		}
		c.Rep.Bounds["race:concurrent_queries"] = len(jobs)
		c.Rep.Bounds["race:rounds_per_shard"] = rounds
		for r := 0; r < rounds && !c.Expired(); r++ {
			// one shared engine per option set for the whole round
			shared := map[core.Opts]any{}
			var wg sync.WaitGroup
			results := make([]*core.Result, len(jobs))
			var panicked atomic.Bool
			for i := range jobs {
				j := &jobs[i]
				key := j.cs.O
				key.Procs = 0
				if j.cs.NDist > 0 {
					key.Pool = "dist"
				}
				if shared[key] == nil {
					e, _, err := core.BuildEngine(&j.cs, nil)
					if err != nil {
						panic(err)
					}
					shared[key] = e
				}
			}
			for i := range jobs {
				wg.Add(1)
				go func(i int) {
					defer wg.Done()
					j := &jobs[i]
					// a panic out of query creation or Exec on the caller's goroutine: the
					// embedding process would die of it
					defer func() {
						if r := recover(); r != nil {
							results[i] = &core.Result{Type: "none", Err: fmt.Sprintf("PANIC on the caller's goroutine: %v", r)}
							panicked.Store(true)
						}
					}()
					key := j.cs.O
					key.Procs = 0
					if j.cs.NDist > 0 {
						key.Pool = "dist"
					}
					q, err := core.NewQueryAny(shared[key], st, &j.cs)
					if err != nil {
						results[i] = &core.Result{Type: "none", CreateErr: err.Error()}
						return
					}
					ctx, cancel := context.WithCancel(context.Background())
					defer cancel()
					if j.cancel {
						go func() {
							time.Sleep(time.Duration(i%3) * 50 * time.Microsecond)
							q.Cancel()
						}()
					}
					res := q.Exec(ctx)
					results[i] = core.Canon(res)
					q.Close()
				}(i)
			}
			wg.Wait()
			if panicked.Load() {
				for i := range jobs {
					if results[i] != nil && strings.HasPrefix(results[i].Err, "PANIC on the caller's goroutine") {
						cp := jobs[i].cs
						c.Fail(check.Failure{Prop: "C12", Kind: "enum", Sub: "C12/race", Symptom: "isolation:panic", Detail: fmt.Sprintf("run concurrently with %d other queries: %s", len(jobs)-1, results[i].Err), Case: &cp})
					}
				}
				panicked.Store(false)
			}
			c.Rep.States++
			c.Rep.Transitions += int64(len(jobs))
			c.Rep.Evaluations += int64(len(jobs))
			c.Rep.Traces += int64(len(jobs))
			c.Rep.Nontrivial++
			for i := range jobs {
				if jobs[i].cancel || jobs[i].solo == nil {
					continue
				}
				if s, d := core.Diff(jobs[i].solo, results[i], false); s != "" {
					if hasK(jobs[i].cs.Q) && tieEqual(jobs[i].solo, results[i]) {
						continue
					}
					cp := jobs[i].cs
					c.Fail(check.Failure{Prop: "C12", Kind: "enum", Sub: "C12/race", Symptom: "isolation:" + s, Detail: fmt.Sprintf("run concurrently with %d other queries: %s", len(jobs)-1, d), Case: &cp})
				}
			}
		}
		if c.Shard == 0 {
			c.Sample(map[string]any{"kind": "race pass", "concurrent_queries": len(jobs), "gomaxprocs": procs, "note": "dynamic race detection on free-running executions; not an enumeration"})
		}
		c.Note("race half: the absence of data races is reported by the Go race detector on %d free-running rounds per shard; this half is dynamic analysis, not exhaustive exploration", rounds)
	})
}
