package checks

import (
	"context"
	"encoding/json"
	"fmt"
	"math"
	"sort"
	"strconv"
	"strings"

	"github.com/prometheus/prometheus/model/labels"
	"github.com/prometheus/prometheus/promql"

	"verif/harness/check"
	"verif/harness/core"
	"verif/harness/gen"
	"verif/harness/mstore"
)

// planShapes: one query per goroutine domain / operator kind.
func planShapes(thorough bool) []string {
	qs := []string{
		`a`, `rate(a[1m])`, `sum by (l) (a)`, `sum(a)`, `topk(1, a)`, `quantile(0.5, a)`, `a + b`, `a + on (l) group_left b`, `a + 1`, `a > 2`,
		`clamp_min(a, scalar(b{l="0"}))`, `-a`, `sum(-a)`, `a @ 45.000 + a`, `abs(a)`, `sum(rate(a[1m])) / count(b)`, `histogram_quantile(0.5, h_bucket)`,
	}
	if true {
		qs = append(qs, `max without (l) (a offset 30s)`, `bottomk by (l) (1, a)`, `scalar(sum(a)) + a`, `count(a == bool b)`, `last_over_time(a[1m])`,
			`sum by (l) (a) + on (l) group_right a`, `a * on (l) group_left sum by (l) (b)`, `vector(time())`, `sum_over_time(a[45s]) - a`, `stddev(a) > 0`,
			`topk(scalar(count(b)), a)`, `a + b + a`, `sum(a) + sum(b) + sum(a offset 30s)`,
			// a step-invariant operator as the only consumer of the storage, at the root and
			// below one more operator
			`a @ 45.000`, `abs(a @ 45.000)`, `sum(a @ 45.000)`, `b + on () group_left () sum(a @ 45.000)`, `rate(a[1m] @ 45.000)`)
	}
	return qs
}

func faultData() []core.SeriesSpec {
	d := []core.SeriesSpec{
		gen.Regular(`a{l="0",m="0"}`, 0, 30000, 16, 1, 1),
		gen.Regular(`a{l="0",m="1"}`, 0, 30000, 16, 10, 2),
		gen.Regular(`a{l="1"}`, 0, 30000, 16, 100, 0.5),
		gen.Regular(`b{l="0"}`, 0, 30000, 16, 5, 1),
		gen.Regular(`b{l="1"}`, 0, 30000, 16, 2.25, 3),
	}
	for _, le := range []string{"1", "10", "+Inf"} {
		base := map[string]float64{"1": 3, "10": 7, "+Inf": 10}[le]
		// a label that sorts after `le`: dropping `le` in place shifts it
		d = append(d, gen.Regular(fmt.Sprintf(`h_bucket{l="0",le="%s",z="1"}`, le), 0, 30000, 16, base, base))
	}
	return d
}

type faultPoint struct {
	kind   string
	sel    string
	series int
	nth    int
}

// reached runs the case fault-free and lists every storage callback it reaches.
func reached(cs *core.Case, kinds map[string]bool) ([]faultPoint, *core.Outcome) {
	st := storeFor(cs)
	st.Record = true
	clean := *cs
	clean.Faults = nil
	out := core.RunEngine(&clean, st)
	st.Record = false
	var pts []faultPoint
	var keys []string
	for k := range st.Reached {
		keys = append(keys, k)
	}
	sort.Strings(keys)
	for _, k := range keys {
		parts := strings.Split(k, "|")
		if len(parts) != 3 || !kinds[parts[0]] {
			continue
		}
		ser, _ := strconv.Atoi(parts[2])
		for n := 0; n < st.Reached[k]; n++ {
			pts = append(pts, faultPoint{kind: parts[0], sel: parts[1], series: ser, nth: n})
		}
	}
	return pts, out
}

// thin: for seek/next on one series keep the first 3, the batch boundary (10th, 11th)
// and the last occurrence in the quick tier.
func thin(pts []faultPoint, thorough bool) []faultPoint {
	if true {
		return pts // the spaces are small enough to enumerate completely in both tiers
	}
	max := map[string]int{}
	for _, p := range pts {
		k := p.kind + "|" + p.sel + "|" + fmt.Sprint(p.series)
		if p.nth > max[k] {
			max[k] = p.nth
		}
	}
	var out []faultPoint
	for _, p := range pts {
		k := p.kind + "|" + p.sel + "|" + fmt.Sprint(p.series)
		if p.nth <= 2 || p.nth == 9 || p.nth == 10 || p.nth == 11 || p.nth == max[k] {
			out = append(out, p)
		}
	}
	return out
}

type faultObs struct {
	out      *core.Outcome
	after    *core.Result // unrelated query on the same engine afterwards
	afterRef *core.Result
}

// storeCtxAll makes every case of enumerateFaults run over a context-honouring storage.
var storeCtxAll bool

// qCancelAll makes the cancel/block faults of enumerateFaults cancel through Query.Cancel.
var qCancelAll bool

// qCloseAll: the cancel/block faults call Query.Close while Exec is running.
var qCloseAll bool

// ownErrAll: the context-honouring storage reports aborted calls with an error of its own.
var ownErrAll bool

var afterCase = core.Case{Q: `sum by (l) (b)`, W: core.Range(10000, 30000, 3), O: core.Opts{Optimizers: "none"}}

func runFault(cs *core.Case, f mstore.Fault) faultObs {
	st := storeFor(cs)
	c2 := *cs
	c2.Faults = []mstore.Fault{f}
	o := core.RunEngine(&c2, st)
	ac := afterCase
	ac.Data = cs.Data
	ac.O = cs.O
	after := core.RunEngine(&ac, st)
	return faultObs{out: o, after: after.Res}
}

var afterSolo = map[string]*core.Result{}

func soloAfter(cs *core.Case) *core.Result {
	k := fmt.Sprintf("%p/%v", &cs.Data[0], cs.O)
	if r, ok := afterSolo[k]; ok {
		return r
	}
	ac := afterCase
	ac.Data = cs.Data
	ac.O = cs.O
	r := core.RunEngine(&ac, storeFor(cs)).Res
	afterSolo[k] = r
	return r
}

type faultOracle func(cs *core.Case, clean *core.Outcome, f mstore.Fault, o faultObs) (sym, det string)

// enumerateFaults is the common driver of C13b, C15, C17 and the C14 supplement.
func enumerateFaults(c *check.Ctx, prop, sub string, kinds map[string]bool, actions []string, oracle faultOracle, windows []core.Window, dist bool) {
	data := faultData()
	shapes := planShapes(c.Thorough())
	type variant struct {
		q     string
		ndist int
	}
	var vs []variant
	for _, q := range shapes {
		vs = append(vs, variant{q, 0})
	}
	if dist {
		vs = append(vs, variant{`sum by (l) (a)`, 2}, variant{`a`, 2})
	}
	c.Rep.Bounds[sub+":plan_shapes"] = len(vs)
	c.Rep.Bounds[sub+":actions"] = actions
	for _, v := range vs {
		for _, w := range windows {
			cs := &core.Case{Q: v.q, Data: data, W: w, O: core.Opts{Optimizers: "none"}, Note: sub, StoreCtx: storeCtxAll, QCancel: qCancelAll, QClose: qCloseAll, StoreOwnErr: ownErrAll}
			if v.ndist > 0 {
				cs.NDist = v.ndist
				cs.Dist = []int{0, 1, 0, 1, 0, 1, 0, 1}
			}
			var pts []faultPoint
			var clean *core.Outcome
			if v.ndist > 0 {
				// the remote engines read their own stores: address faults by kind only
				for _, k := range []string{"querier", "select", "iterator", "seek"} {
					if kinds[k] {
						for n := 0; n < 4; n++ {
							pts = append(pts, faultPoint{kind: k, sel: "", series: -1, nth: n})
						}
					}
				}
				clean = core.RunEngine(cs, storeFor(cs))
			} else {
				pts, clean = reached(cs, kinds)
				pts = thin(pts, c.Thorough())
			}
			if clean.Res.Failed() {
				c.Note("%s: fault-free run of %q fails: %s", sub, v.q, clean.Res.Err+clean.Res.CreateErr)
				continue
			}
			for _, p := range pts {
				for _, act := range actions {
					c.Rep.Transitions++
					if !c.Mine() {
						continue
					}
					if c.Expired() {
						return
					}
					f := mstore.Fault{Kind: p.kind, Sel: p.sel, Series: p.series, Nth: p.nth, Action: act}
					fc := *cs
					fc.Faults = []mstore.Fault{f}
					if !c.Progress(&fc) {
						continue
					}
					var o faultObs
					if v.ndist > 0 {
						o = runFaultDist(cs, f)
					} else {
						o = runFault(cs, f)
					}
					c.Rep.States++
					c.Rep.Evaluations++
					c.Rep.Traces++
					if len(o.out.Fired) > 0 || v.ndist > 0 {
						c.Rep.Nontrivial++
					}
					if c.Shard == 0 {
						c.Sample(map[string]any{"q": v.q, "window": w, "fault": f, "distributed": v.ndist > 0})
					}
					sym, det := oracle(cs, clean, f, o)
					if sym == "" {
						c.Rep.Outcomes[sub+":ok"]++
						continue
					}
					// confirm (a hang with twice the guard)
					oldGuard := core.HangGuard
					if sym == "hang" {
						core.HangGuard = 2 * oldGuard
					}
					var o2 faultObs
					if v.ndist > 0 {
						o2 = runFaultDist(cs, f)
					} else {
						o2 = runFault(cs, f)
					}
					core.HangGuard = oldGuard
					if s2, _ := oracle(cs, clean, f, o2); s2 == "" {
						c.Rep.Extra["unreproduced_failures"]++
						continue
					}
					c.Rep.Outcomes[sub+":"+sym]++
					feats := append(core.Features(&fc), "fault:"+act, "fault-kind:"+p.kind)
					if p.nth >= 10 {
						feats = append(feats, "fault:later-batch")
					}
					sort.Strings(feats)
					c.Fail(check.Failure{Prop: prop, Kind: "enum", Sub: sub, Symptom: sym, Detail: det, Case: &fc, Features: feats})
				}
			}
		}
	}
}

// distributed: the fault goes into the store of remote engine 1.
func runFaultDist(cs *core.Case, f mstore.Fault) faultObs {
	core.DistFaults = map[int][]mstore.Fault{1: {f}}
	defer func() { core.DistFaults = nil }()
	o := core.RunEngine(cs, storeFor(cs))
	return faultObs{out: o}
}

func afterOK(cs *core.Case, o faultObs) (string, string) {
	if o.after == nil {
		return "", ""
	}
	if s, d := core.Diff(soloAfter(cs), o.after, false); s != "" {
		return "other-query-affected:" + s, "an unrelated query on the same engine afterwards: " + d
	}
	return "", ""
}

// ---- oracles

func c13Oracle(cs *core.Case, clean *core.Outcome, f mstore.Fault, o faultObs) (string, string) {
	if s, d := engineSymptom(o.out); s != "" {
		return s, d
	}
	if len(o.out.Fired) > 0 && !o.out.Res.Failed() {
		return "panic-swallowed", "a runtime panic in a storage callback was turned into a successful result: " + o.out.Res.String()
	}
	return afterOK(cs, o)
}

// c13StringOracle: a panic whose value is not an error (panic("...")). On the goroutine
// that called Exec it escapes to the caller, as it does in the reference engine; on every
// other goroutine it must not reach the top (process death), and it never becomes a success.
func c13StringOracle(cs *core.Case, clean *core.Outcome, f mstore.Fault, o faultObs) (string, string) {
	escaped := false
	for _, p := range o.out.Panics {
		if p.Where == "Exec (escaped)" {
			escaped = true
			continue
		}
		return "panic@" + p.Where, p.Val
	}
	if o.out.Hang && !escaped {
		return "hang", "Exec did not return within the hang guard"
	}
	if o.out.Leaked > 0 && !escaped {
		return "leak", fmt.Sprintf("%d engine goroutines alive after the grace period", o.out.Leaked)
	}
	if len(o.out.Fired) > 0 && !escaped && !o.out.Res.Failed() {
		return "panic-swallowed", "a panic(string) in a storage callback was turned into a successful result: " + o.out.Res.String()
	}
	return "", ""
}

func c15Oracle(cs *core.Case, clean *core.Outcome, f mstore.Fault, o faultObs) (string, string) {
	if s, d := engineSymptom(o.out); s != "" {
		return s, d
	}
	fired := len(o.out.Fired) > 0 || cs.NDist > 0
	if !fired {
		return "", ""
	}
	if !o.out.Res.Failed() {
		if cs.NDist > 0 {
			// the fault may not have been reached in the remote store
			if s, _ := core.Diff(clean.Res, o.out.Res, false); s == "" {
				return "", ""
			}
		}
		return "storage-error-lost", fmt.Sprintf("the storage failed at %s#%d but the query succeeded: %s", f.Kind, f.Nth, o.out.Res.String())
	}
	if !o.out.ErrIs["injected"] {
		return "storage-error-not-wrapped", "errors.Is(result.Err, storage error) is false: " + o.out.Res.Err + o.out.Res.CreateErr
	}
	return afterOK(cs, o)
}

func c17Oracle(cs *core.Case, clean *core.Outcome, f mstore.Fault, o faultObs) (string, string) {
	out := o.out
	if out.Hang {
		return "", "" // C14's business
	}
	for i, n := range out.CloseCnt {
		if n != 1 {
			return "querier-close-count", fmt.Sprintf("querier #%d of %d was closed %d times (fault %s#%d:%s)", i, len(out.CloseCnt), n, f.Kind, f.Nth, f.Action)
		}
	}
	if out.OpenAtReturn != 0 {
		return "querier-open-at-return", fmt.Sprintf("%d queriers still open when Exec returned (fault %s#%d:%s)", out.OpenAtReturn, f.Kind, f.Nth, f.Action)
	}
	return "", ""
}

func c14EnumOracle(cs *core.Case, clean *core.Outcome, f mstore.Fault, o faultObs) (string, string) {
	out := o.out
	if out.Hang {
		return "hang", "Exec did not return after a cancellation from storage callback " + f.Kind
	}
	if out.Leaked > 0 {
		return "leak", fmt.Sprintf("%d engine goroutines alive after Exec returned and the query was closed", out.Leaked)
	}
	if len(out.Panics) > 0 {
		return "panic@" + out.Panics[0].Where, out.Panics[0].Val
	}
	if len(out.Fired) == 0 {
		return "", ""
	}
	if out.Res.Failed() {
		if out.ErrIs["canceled"] {
			return "", ""
		}
		return "cancel:wrong-error", out.Res.Err
	}
	if s, d := core.Diff(clean.Res, out.Res, false); s != "" {
		return "partial-result", s + ": " + d
	}
	return "", ""
}

var panicKinds = map[string]bool{"querier": true, "select": true, "set-next": true, "set-err": true, "labels": true, "iterator": true, "seek": true, "next": true, "at": true, "iter-err": true}
var errorKinds = map[string]bool{"querier": true, "select": true, "set-next": true, "set-err": true, "iterator": true, "seek": true, "next": true}
var allKinds = map[string]bool{"querier": true, "select": true, "set-next": true, "set-err": true, "labels": true, "iterator": true, "seek": true, "next": true}

func faultReplayer(oracle faultOracle) func(f *check.Failure) (string, string) {
	return func(f *check.Failure) (string, string) {
		cs := *f.Case
		fl := cs.Faults[0]
		cs.Faults = nil
		clean := core.RunEngine(&cs, storeFor(&cs))
		var o faultObs
		if cs.NDist > 0 {
			o = runFaultDist(&cs, fl)
		} else {
			o = runFault(&cs, fl)
		}
		fmt.Printf("query %q fault %+v\nfault-free: %s\nwith fault: %s fired=%v panics=%d leaked=%d closes=%v openAtReturn=%d\n", cs.Q, fl, clean.Res, o.out.Res, o.out.Fired, len(o.out.Panics), o.out.Leaked, o.out.CloseCnt, o.out.OpenAtReturn)
		for _, p := range o.out.Panics {
			fmt.Printf("goroutine-top panic at %s: %s\n", p.Where, p.Val)
		}
		return oracle(&cs, clean, fl, o)
	}
}

func init() {
	check.Replayers["enum:C13/fault"] = faultReplayer(c13Oracle)
	check.Replayers["enum:C13/fault-string"] = faultReplayer(c13StringOracle)
	check.Replayers["enum:C15/fault"] = faultReplayer(c15Oracle)
	check.Replayers["enum:C17/fault"] = faultReplayer(c17Oracle)
	check.Replayers["enum:C17/fault-close"] = faultReplayer(c17Oracle)
	check.Replayers["enum:C17/dist-slow"] = func(f *check.Failure) (string, string) {
		cs := *f.Case
		fl := cs.Faults
		cs.Faults = nil
		core.DistFaults = map[int][]mstore.Fault{fl[0].Series: {{Kind: fl[0].Kind, Series: -1, Nth: 0, Action: "slow"}}, fl[1].Series: {{Kind: fl[1].Kind, Series: -1, Nth: 0, Action: fl[1].Action}}}
		o := core.RunEngine(&cs, storeFor(&cs))
		core.DistFaults = nil
		fmt.Printf("result %s closes=%v openAtReturn=%d fired=%v\n", o.Res, o.CloseCnt, o.OpenAtReturn, o.Fired)
		return c17Oracle(&cs, nil, fl[1], faultObs{out: o})
	}
	check.Replayers["enum:C17/labels"] = func(f *check.Failure) (string, string) {
		o := core.RunEngine(f.Case, storeFor(f.Case))
		if len(o.LabelsModified) > 0 {
			return "storage-data-modified", strings.Join(o.LabelsModified, "; ")
		}
		return "", ""
	}
	check.Replayers["enum:C14/cancel"] = faultReplayer(c14EnumOracle)
	check.Replayers["enum:C14/cancel+storectx"] = faultReplayer(c14EnumOracle)
	check.Replayers["enum:C14/qcancel+storectx"] = faultReplayer(c14EnumOracle)
	check.Replayers["enum:C14/qcancel+ownerr"] = faultReplayer(c14EnumOracle)
	check.Replayers["enum:C14/qclose+storectx"] = faultReplayer(c14EnumOracle)
	check.Replayers["enum:C14/cancel+ownerr"] = faultReplayer(c14EnumOracle)

	windows := []core.Window{core.Range(10000, 30000, 12), core.Instant(45000), core.Range(0, 45000, 3)}

	// thorough: also four batches (the exchange buffers fill up) and a window that starts
	// before the data with a step that is not a multiple of the scrape interval
	deep := func(c *check.Ctx) []core.Window {
		if c.Thorough() {
			return append(append([]core.Window(nil), windows...), core.Range(10000, 30000, 35), core.Range(-60000, 17000, 21))
		}
		return windows
	}

	check.Register("C13/fault", func(c *check.Ctx) {
		enumerateFaults(c, "C13", "C13/fault", panicKinds, []string{"panic-runtime", "panic-nil"}, c13Oracle, deep(c), true)
		// a panic with a value that is not an error
		enumerateFaults(c, "C13", "C13/fault-string", panicKinds, []string{"panic-string"}, c13StringOracle, windows[:2], true)
	})
	check.Register("C15/fault", func(c *check.Ctx) {
		enumerateFaults(c, "C15", "C15/fault", errorKinds, []string{"error"}, c15Oracle, deep(c), true)
		c15Pairs(c)
	})
	check.Register("C17/fault", func(c *check.Ctx) {
		enumerateFaults(c, "C17", "C17/fault", allKinds, []string{"error", "panic-runtime", "cancel"}, c17Oracle, deep(c), false)
		// faults in Querier.Close itself
		enumerateFaults(c, "C17", "C17/fault-close", map[string]bool{"close": true}, []string{"error", "panic-runtime", "cancel"}, c17Oracle, windows[:2], false)
		c17Histories(c)
		c17Labels(c)
		c17DistSlow(c)
	})
	check.Register("C14/cancel", func(c *check.Ctx) {
		enumerateFaults(c, "C14", "C14/cancel", allKinds, []string{"cancel", "block"}, c14EnumOracle, windows, true)
		// once more over a storage that honours the cancelled context in every callback
		storeCtxAll = true
		defer func() { storeCtxAll = false }()
		enumerateFaults(c, "C14", "C14/cancel+storectx", allKinds, []string{"cancel", "block"}, c14EnumOracle, windows[:2], false)
		// and with the cancellation coming through Query.Cancel instead of the context given to Exec
		qCancelAll = true
		defer func() { qCancelAll = false }()
		enumerateFaults(c, "C14", "C14/qcancel+storectx", allKinds, []string{"cancel", "block"}, c14EnumOracle, windows[:2], true)
		// through Query.Close while Exec is running (native queries only: closing a query of
		// the Prometheus engine twice is not allowed, and the runner closes it at the end)
		qCancelAll, qCloseAll = false, true
		defer func() { qCloseAll = false }()
		enumerateFaults(c, "C14", "C14/qclose+storectx", allKinds, []string{"block", "cancel"}, c14EnumOracle, windows[:2], false)
		qCancelAll, qCloseAll = true, false
		// and over a storage that reports the aborted call with an error of its own: what
		// Exec returns is still the context's error
		ownErrAll = true
		defer func() { ownErrAll = false }()
		enumerateFaults(c, "C14", "C14/qcancel+ownerr", allKinds, []string{"block", "cancel"}, c14EnumOracle, windows[:2], false)
		qCancelAll = false
		enumerateFaults(c, "C14", "C14/cancel+ownerr", allKinds, []string{"block", "cancel"}, c14EnumOracle, windows[:1], false)
	})
	check.Register("C13/params", c13Params)
}

// c15Pairs: two faults on different series (different shards) of one selector.
func c15Pairs(c *check.Ctx) {
	data := faultData()
	for _, q := range []string{`a`, `sum by (l) (a)`, `a + b`, `rate(a[1m])`} {
		cs := &core.Case{Q: q, Data: data, W: core.Range(10000, 30000, 12), O: core.Opts{Optimizers: "none"}, Note: "C15/pairs"}
		pts, clean := reached(cs, map[string]bool{"iterator": true, "seek": true})
		pts = thin(pts, false)
		for i := range pts {
			for j := i + 1; j < len(pts); j++ {
				if pts[i].series == pts[j].series {
					continue
				}
				c.Rep.Transitions++
				if !c.Mine() {
					continue
				}
				if c.Expired() {
					return
				}
				f1 := mstore.Fault{Kind: pts[i].kind, Sel: pts[i].sel, Series: pts[i].series, Nth: pts[i].nth, Action: "error"}
				f2 := mstore.Fault{Kind: pts[j].kind, Sel: pts[j].sel, Series: pts[j].series, Nth: pts[j].nth, Action: "error"}
				fc := *cs
				fc.Faults = []mstore.Fault{f1, f2}
				if !c.Progress(&fc) {
					continue
				}
				o := core.RunEngine(&fc, storeFor(cs))
				c.Rep.States++
				c.Rep.Evaluations++
				c.Rep.Traces++
				c.Rep.Nontrivial++
				sym, det := c15Oracle(cs, clean, f1, faultObs{out: o})
				if sym == "" {
					c.Rep.Outcomes["C15/pairs:ok"]++
					continue
				}
				c.Rep.Outcomes["C15/pairs:"+sym]++
				c.Fail(check.Failure{Prop: "C15", Kind: "enum", Sub: "C15/fault", Symptom: sym, Detail: det, Case: &fc})
			}
		}
	}
}

// c17Histories: sequences of 3 queries over a storage that hands out the very same
// label slices on every call; the labels must stay untouched. Also: a query that is
// created but never executed opens no querier.
// c17Labels: every query of the enumerated grammar, and every operator x matching x bool
// over plain selectors, runs once over a storage that hands out the very same label
// slices on every call; afterwards every stored label set must be unchanged.
func c17Labels(c *check.Ctx) {
	f := gen.FullDepth1()
	k := gen.KDepth(2)
	qs := append([]string(nil), f.List...)
	for _, q := range k.List {
		if !f.Has(q) {
			qs = append(qs, q)
		}
	}
	ms := []string{"on (l) group_left (m)", "on (l) group_right (m)", "ignoring (m) group_left (m)", "on (l) group_left (l)", "on (l) group_left (m, z)", "on (l, m) group_left (l)",
		"ignoring (m) group_right (l, m)", "on (l) group_left (A)", "on (m) group_right (l)"}
	for _, pr := range [][2]string{{"a", "b"}, {"b", "a"}, {"a", "a"}, {`a{m="1"}`, "a"}} {
		for _, q := range gen.BinsOver(pr[0], pr[1], gen.BinOps, ms, true) {
			if cq := gen.Canon(q); cq != "" {
				qs = append(qs, cq)
			}
		}
	}
	c.Rep.Bounds["C17/labels:queries"] = len(qs)
	for _, d := range []string{"D1", "D5"} {
		data := dataset(d)
		for _, q := range qs {
			for _, w := range []core.Window{core.Range(10000, 30000, 12), core.Instant(45000)} {
				c.Rep.Transitions++
				if !c.Mine() {
					continue
				}
				if c.Expired() {
					return
				}
				cs := &core.Case{Q: q, Data: data, W: w, O: core.Opts{Optimizers: "none"}, Note: d + " shared labels", ShareLabels: true}
				o := core.RunEngine(cs, storeFor(cs))
				if o.Res.CreateErr != "" {
					continue
				}
				c.Rep.States++
				c.Rep.Evaluations++
				c.Rep.Traces++
				if !o.Res.Failed() && o.Res.NPoints() > 0 {
					c.Rep.Nontrivial++
				}
				if len(o.LabelsModified) == 0 {
					c.Rep.Outcomes["C17/labels:ok"]++
					continue
				}
				c.Rep.Outcomes["C17/labels:modified"]++
				cp := *cs
				c.Fail(check.Failure{Prop: "C17", Kind: "enum", Sub: "C17/labels", Symptom: "storage-data-modified", Detail: "storage label sets changed by the query: " + strings.Join(o.LabelsModified, "; "), Case: &cp})
			}
		}
	}
}

// c17DistSlow: a distributed engine over two remote engines; one remote engine is slow in
// a storage call while the other one fails: when Exec returns no querier of either may be
// open (and each was closed once).
func c17DistSlow(c *check.Ctx) {
	data := faultData()
	for _, q := range []string{`sum by (l) (a)`, `a`, `sum(a)`, `max(a) + min(b)`, `rate(a[1m])`} {
		for _, w := range []core.Window{core.Range(10000, 30000, 12), core.Instant(45000)} {
			for _, slowKind := range []string{"querier", "select", "set-next", "iterator"} {
				for _, failKind := range []string{"querier", "select", "iterator"} {
					for _, act := range []string{"error", "panic-runtime"} {
						for slowAt := 0; slowAt < 2; slowAt++ {
							c.Rep.Transitions++
							if !c.Mine() {
								continue
							}
							if c.Expired() {
								return
							}
							cs := &core.Case{Q: q, Data: data, W: w, O: core.Opts{Optimizers: "none"}, NDist: 2, Dist: []int{0, 1, 0, 1, 0, 1, 0, 1}, Note: "C17/dist-slow"}
							df := map[int][]mstore.Fault{slowAt: {{Kind: slowKind, Series: -1, Nth: 0, Action: "slow"}}, 1 - slowAt: {{Kind: failKind, Series: -1, Nth: 0, Action: act}}}
							core.DistFaults = df
							o := core.RunEngine(cs, storeFor(cs))
							core.DistFaults = nil
							c.Rep.States++
							c.Rep.Evaluations++
							c.Rep.Traces++
							if len(o.Fired) > 0 {
								c.Rep.Nontrivial++
							}
							sym, det := c17Oracle(cs, nil, mstore.Fault{Kind: failKind, Action: act}, faultObs{out: o})
							if sym == "" {
								c.Rep.Outcomes["C17/dist-slow:ok"]++
								continue
							}
							c.Rep.Outcomes["C17/dist-slow:"+sym]++
							cp := *cs
							cp.Faults = []mstore.Fault{{Kind: slowKind, Series: slowAt, Action: "slow"}, {Kind: failKind, Series: 1 - slowAt, Action: act}}
							c.Fail(check.Failure{Prop: "C17", Kind: "enum", Sub: "C17/dist-slow", Symptom: sym, Detail: det + fmt.Sprintf(" (remote engine %d slow in %s, remote engine %d: %s in %s)", slowAt, slowKind, 1-slowAt, act, failKind), Case: &cp})
						}
					}
				}
			}
		}
	}
}

func c17Histories(c *check.Ctx) {
	data := faultData()
	qs := []string{`a`, `-a`, `abs(a)`, `rate(a[1m])`, `last_over_time(a[1m])`, `sum by (l) (a)`, `sum without (l) (a)`, `a + b`, `a + on (l) group_left b`, `a == bool 1`,
		`a > 2`, `histogram_quantile(0.5, h_bucket)`, `topk(1, a)`, `a @ 45.000`, `clamp_min(a, 2)`, `timestamp(a)`, `a atan2 b`, `count(a)`}
	base := &core.Case{Data: data}
	st := storeFor(base)
	for i, q1 := range qs {
		for j, q2 := range qs {
			for k, q3 := range qs {
				if c.Thorough() || (i+2*j+3*k)%7 == 0 || (i == j && j == k) {
					// quick: a fixed seventh of the cube plus the diagonal
				} else {
					continue
				}
				c.Rep.Transitions++
				if !c.Mine() {
					continue
				}
				if c.Expired() {
					return
				}
				st.ShareLabels = true
				snap := st.Snapshot()
				bad := ""
				for _, q := range []string{q1, q2, q3} {
					for _, w := range []core.Window{core.Range(10000, 30000, 3)} {
						cs := &core.Case{Q: q, Data: data, W: w, O: core.Opts{Optimizers: "none"}}
						o := core.RunEngine(cs, st)
						if o.Res.CreateErr != "" {
							continue
						}
						for n, cc := range o.CloseCnt {
							if cc != 1 {
								bad = fmt.Sprintf("querier #%d closed %d times by %q", n, cc, q)
							}
						}
					}
					for n := range st.Series {
						if !labels.Equal(st.Series[n].Labels, snap[n]) {
							bad = fmt.Sprintf("after %q the storage's label set #%d is %s, was %s", q, n, st.Series[n].Labels, snap[n])
							// repair for the next history
							st.Series[n].Labels = snap[n].Copy()
						}
					}
				}
				st.ShareLabels = false
				c.Rep.States++
				c.Rep.Evaluations += 3
				c.Rep.Traces += 3
				c.Rep.Nontrivial++
				if bad == "" {
					c.Rep.Outcomes["C17/history:ok"]++
					continue
				}
				c.Rep.Outcomes["C17/history:labels-modified"]++
				hist, _ := jsonMarshal([]string{q1, q2, q3})
				c.Fail(check.Failure{Prop: "C17", Kind: "history", Sub: "C17/history", Symptom: "storage-data-modified", Detail: bad, History: hist,
					Case: &core.Case{Q: q1 + " ; " + q2 + " ; " + q3, Data: data, W: core.Range(10000, 30000, 3)}, Features: []string{"history"}})
			}
		}
	}
	// created, never executed
	for _, q := range qs {
		c.Rep.Transitions++
		if !c.Mine() {
			continue
		}
		st.Reset()
		eng, _, _ := core.BuildEngine(&core.Case{O: core.Opts{Optimizers: "none"}}, nil)
		cs := &core.Case{Q: q, Data: data, W: core.Range(10000, 30000, 3), O: core.Opts{Optimizers: "none"}}
		qq, err := core.NewQuery(eng, st, cs)
		c.Rep.States++
		c.Rep.Evaluations++
		if err != nil {
			continue
		}
		qq.Close()
		if st.Opens != 0 {
			c.Fail(check.Failure{Prop: "C17", Kind: "enum", Sub: "C17/fault", Symptom: "querier-opened-without-exec", Detail: fmt.Sprintf("%d queriers opened for a query that was created and closed but never executed", st.Opens), Case: cs})
		}
	}
}

var _ = context.Background
var _ promql.Query

func jsonMarshal(v any) ([]byte, error) { return json.Marshal(v) }

// c13Params: extreme parameters x degenerate data, against the reference engine.
func c13Params(c *check.Ctx) {
	// 2^31, 2^32, 1e12, 1e18 and 9.2e18 are valid int64 counts far beyond any group size
	params := []string{"0", "-1", "NaN", "Inf", "-Inf", "1e30", "-1e30", "0.5", "1", "2", "1e-300", "2147483648", "4294967296", "1e12", "1e18", "9.2e18", `scalar(nope)`, `scalar(a)`, `scalar(b{l="0"}) - 7`, `time() - 40`, `-time()`}
	nanS := core.SeriesSpec{L: `a{l="0"}`}
	for i := 0; i < 16; i++ {
		nanS.S = append(nanS.S, p(int64(i)*30000, nan()))
	}
	datasets := map[string][]core.SeriesSpec{
		"no-series":     {},
		"no-samples":    {{L: `a{l="0"}`}, {L: `b{l="0"}`}},
		"single-sample": {{L: `a{l="0"}`, S: pts(p(30000, 3))}, {L: `b{l="0"}`, S: pts(p(30000, 5))}},
		"all-NaN":       {nanS, gen.Regular(`b{l="0"}`, 0, 30000, 16, 5, 1)},
		"regular":       faultData(),
	}
	var names []string
	for k := range datasets {
		names = append(names, k)
	}
	sort.Strings(names)
	var qs []string
	for _, pr := range params {
		for _, g := range []string{"", "by (l)", "without (l)"} {
			qs = append(qs, fmt.Sprintf("topk %s (%s, a)", g, pr), fmt.Sprintf("bottomk %s (%s, a)", g, pr), fmt.Sprintf("quantile %s (%s, a)", g, pr))
		}
		qs = append(qs, fmt.Sprintf("histogram_quantile(%s, h_bucket)", pr), fmt.Sprintf("clamp(a, %s, 2)", pr), fmt.Sprintf("clamp(a, 2, %s)", pr),
			fmt.Sprintf("clamp_min(a, %s)", pr), fmt.Sprintf("clamp_max(a, %s)", pr), fmt.Sprintf("a / %s", pr), fmt.Sprintf("a %% %s", pr), fmt.Sprintf("a ^ %s", pr),
			fmt.Sprintf("vector(%s)", pr), fmt.Sprintf("sum(vector(%s))", pr), fmt.Sprintf("topk(1, vector(%s))", pr), fmt.Sprintf("(%s) + (%s)", pr, pr),
			fmt.Sprintf("quantile_over_time(%s, a[1m])", pr), fmt.Sprintf("topk(%s, rate(a[1m]))", pr), fmt.Sprintf("sum(topk(%s, -a))", pr))
	}
	qs = append(qs, `sum(-a)`, `count(-a)`, `scalar(-a)`, `-scalar(a)`, `sum(-(-a))`, `max(abs(-a))`, `topk(1, -a) + a`, `rate(a[1ms])`, `rate(a[100ms])`, `deriv(a[30s])`,
		`a / 0`, `a % 0`, `0 / 0 + a`, `a == bool NaN`, `sum by (l) (a) / on (l) count by (l) (a > 1e30)`, `histogram_quantile(0.5, a)`, `histogram_quantile(0.5, sum(a))`)
	set := gen.NewSet()
	for _, q := range qs {
		set.Add(q, 1)
	}
	c.Rep.Transitions += set.Transitions
	c.Rep.Bounds["C13/params:queries"] = len(set.List)
	c.Rep.Bounds["C13/params:datasets"] = names
	runCases(c, "C13", func(emit func(*core.Case)) {
		for _, dn := range names {
			for _, q := range set.List {
				for _, w := range []core.Window{core.Range(10000, 30000, 12), core.Instant(45000)} {
					emit(&core.Case{Q: q, Data: datasets[dn], W: w, O: core.Opts{Optimizers: "none"}, Note: dn})
				}
			}
		}
	})
}

func nan() float64 { return math.NaN() }
