package checks

import (
	"fmt"
	"strings"

	"verif/harness/check"
	"verif/harness/core"
	"verif/harness/gen"
)

// pointMap flattens a successful result into label-set -> T -> value.
func pointMap(r *core.Result) map[string]map[int64]float64 {
	m := map[string]map[int64]float64{}
	for _, s := range r.Series {
		mm := m[s.Labels]
		if mm == nil {
			mm = map[int64]float64{}
			m[s.Labels] = mm
		}
		for _, p := range s.Points {
			mm[p.T] = float64(p.V)
		}
	}
	return m
}

// compareAt checks that the range result restricted to T equals the other result
// (an instant result at T, or another range result) restricted to T.
func compareAt(rng, other map[string]map[int64]float64, t int64) (string, string) {
	for l, pts := range rng {
		v, ok := pts[t]
		if !ok {
			continue
		}
		ov, ok2 := other[l][t]
		if !ok2 {
			return "range-extra-point", fmt.Sprintf("%s T=%d: range query has %v, instant query has nothing", l, t, v)
		}
		if !core.ValEqExact(v, ov) && !core.ValEq(v, ov) {
			return "range-value", fmt.Sprintf("%s T=%d: range query %v, instant query %v", l, t, v, ov)
		}
	}
	for l, pts := range other {
		ov, ok := pts[t]
		if !ok {
			continue
		}
		if _, ok2 := rng[l][t]; !ok2 {
			return "range-missing-point", fmt.Sprintf("%s T=%d: instant query has %v, range query has nothing", l, t, ov)
		}
	}
	return "", ""
}

func c07Once(cs *core.Case, subWindows [][2]int) (ran bool, nontrivial bool, sym, det string, evals int64) {
	st := storeFor(cs)
	rng := core.RunEngine(cs, st)
	evals++
	if rng.Res.CreateErr != "" && (rng.ErrIs["unsupported"] || rng.ErrIs["notimplemented"]) {
		return false, false, "", "", evals
	}
	if s, d := engineSymptom(rng); s != "" {
		return true, false, s, d, evals
	}
	n := cs.W.NSteps()
	rm := pointMap(rng.Res)
	anyInstantFailed := false
	for k := 0; k < n; k++ {
		t := cs.W.Start + int64(k)*cs.W.Step
		ic := *cs
		ic.W = core.Instant(t)
		io := core.RunEngine(&ic, st)
		evals++
		if s, d := engineSymptom(io); s != "" {
			return true, false, s, "instant at " + fmt.Sprint(t) + ": " + d, evals
		}
		if io.Res.Failed() {
			anyInstantFailed = true
			if !rng.Res.Failed() {
				return true, false, "range-ok/instant-err", fmt.Sprintf("instant query at T=%d fails (%s%s), range query succeeds", t, io.Res.Err, io.Res.CreateErr), evals
			}
			continue
		}
		if rng.Res.Failed() {
			continue
		}
		// an instant vector / scalar is stamped T
		im := pointMap(io.Res)
		if s, d := compareAt(rm, im, t); s != "" {
			return true, true, s, d, evals
		}
	}
	if rng.Res.Failed() {
		if !anyInstantFailed {
			return true, false, "range-err/instants-ok", "range query fails (" + rng.Res.Err + rng.Res.CreateErr + "), every instant query succeeds", evals
		}
		return true, false, "", "", evals
	}
	// no points off the grid / outside the window
	for l, pts := range rm {
		for t := range pts {
			if t < cs.W.Start || t > cs.W.End || (t-cs.W.Start)%cs.W.Step != 0 {
				return true, true, "range-off-grid", fmt.Sprintf("%s has a point at T=%d", l, t), evals
			}
		}
	}
	// sub-windows on the same grid
	for _, sw := range subWindows {
		lo, hi := sw[0], sw[1]
		if lo < 0 || hi >= n || lo > hi || (lo == 0 && hi == n-1) {
			continue
		}
		sc := *cs
		sc.W = core.Window{Start: cs.W.Start + int64(lo)*cs.W.Step, End: cs.W.Start + int64(hi)*cs.W.Step, Step: cs.W.Step}
		so := core.RunEngine(&sc, st)
		evals++
		if s, d := engineSymptom(so); s != "" {
			return true, false, s, fmt.Sprintf("sub-window [%d,%d]: %s", lo, hi, d), evals
		}
		if so.Res.Failed() {
			return true, false, "subwindow-err", fmt.Sprintf("sub-window steps [%d,%d] fails: %s", lo, hi, so.Res.Err), evals
		}
		sm := pointMap(so.Res)
		for k := lo; k <= hi; k++ {
			t := cs.W.Start + int64(k)*cs.W.Step
			if s, d := compareAt(rm, sm, t); s != "" {
				return true, true, "subwindow:" + s, fmt.Sprintf("sub-window steps [%d,%d]: %s", lo, hi, strings.ReplaceAll(d, "instant query", "sub-window query")), evals
			}
		}
	}
	return true, rng.Res.NPoints() > 0, "", "", evals
}

func usesStartEnd(q string) bool {
	return strings.Contains(q, "start()") || strings.Contains(q, "end()")
}

func init() {
	check.Replayers["enum:C07"] = func(f *check.Failure) (string, string) {
		_, _, s, d, _ := c07Once(f.Case, [][2]int{{3, f.Case.W.NSteps() - 1}, {10, f.Case.W.NSteps() - 1}, {0, f.Case.W.NSteps() - 2}})
		return s, d
	}
	check.Register("C07/enum", func(c *check.Ctx) {
		f := gen.FullDepth1()
		var k *gen.Set
		if c.Thorough() {
			k = gen.KDepth(2)
		} else {
			k = gen.KDepth(1)
		}
		qs := append([]string(nil), f.List...)
		for _, q := range k.List {
			if !f.Has(q) {
				qs = append(qs, q)
			}
		}
		if !c.Thorough() {
			// unary productions over the depth-1 composition states
			extra := gen.NewSet()
			for _, q := range k.List {
				for _, u := range gen.KUnary(q) {
					extra.Add(u, 2)
				}
			}
			for _, q := range extra.List {
				if !f.Has(q) && !k.Has(q) {
					qs = append(qs, q)
				}
			}
			c.Rep.Transitions += extra.Transitions
		}
		c.Rep.Transitions += f.Transitions + k.Transitions
		c.Rep.Bounds["queries"] = len(qs)
		type wspec struct {
			w   core.Window
			sub [][2]int
		}
		var ws []wspec
		mk := func(start, step int64, n int) wspec {
			return wspec{core.Range(start, step, n), [][2]int{{3, n - 1}, {10, n - 1}, {0, n - 2}}}
		}
		if c.Thorough() {
			for _, n := range []int{1, 2, 9, 10, 11, 12, 20, 21, 35} {
				ws = append(ws, mk(10000, 30000, n), mk(0, 45000, n))
			}
			ws = append(ws, mk(10000, 7000, 35), mk(-60000, 30000, 12), mk(1300000, 30000, 12))
			// all sub-windows for n = 12
			all := wspec{w: core.Range(10000, 30000, 12)}
			for lo := 0; lo < 12; lo++ {
				for hi := lo; hi < 12; hi++ {
					all.sub = append(all.sub, [2]int{lo, hi})
				}
			}
			ws = append(ws, all)
		} else {
			ws = []wspec{mk(10000, 30000, 12), mk(0, 45000, 21), mk(1300000, 30000, 11)}
		}
		// times that are not whole milliseconds (the instant queries are on the millisecond grid)
		for _, w := range []core.Window{core.Range(600000, 60000, 6).SubMs(900000, 100000, 0), core.Range(10000, 33333, 7).SubMs(0, 0, 333333), core.Range(0, 30000, 10).SubMs(999999, 1, 0)} {
			n := w.NSteps()
			ws = append(ws, wspec{w, [][2]int{{1, n - 1}, {0, n - 2}}})
		}
		c.Rep.Bounds["windows"] = len(ws)
		// parameters and arguments that vary per step, over the dataset of C06 (histogram
		// buckets, a scalar source that is absent at some steps, vectors absent for a batch)
		perStep := []string{`histogram_quantile(scalar(b{l="0"}) / 5, h_bucket)`, `histogram_quantile(time() / 4000, h_bucket)`, `histogram_quantile(scalar(b{l="0"}) / 5, gh_bucket)`,
			`clamp_min(a, scalar(b{l="0"}))`, `clamp_max(a, time() / 100)`, `clamp(a, scalar(b{l="0"}) - 2, time() / 300)`, `topk(scalar(b{l="0"}), a)`, `bottomk by (l) (scalar(b{l="0"}) - 1, a)`,
			`quantile(scalar(b{l="0"}) / 5, a)`, `a * scalar(b{l="0"})`, `scalar(b{l="0"}) + time()`, `clamp_min(g, time() / 100)`, `g + scalar(b{l="0"})`, `vector(scalar(g{l="0"}))`,
			`scalar(sum by (l) (g{l="1"}))`, `histogram_quantile(0.9, sum by (le) (rate(h_bucket[1m])))`, `count_values("v", a)`, `sum(a) / scalar(b{l="0"})`, `a > bool scalar(b{l="0"})`}
		type group struct {
			name string
			data []core.SeriesSpec
			qs   []string
			o    core.Opts
		}
		groups := []group{{"c06", c06Data(), perStep, core.Opts{Optimizers: "none", LookbackMs: 20000}}}
		for _, d := range []string{"D1", "D2", "D3"} {
			groups = append(groups, group{d, dataset(d), qs, core.Opts{Optimizers: "none"}})
		}
		c.Rep.Bounds["per_step_parameter_queries"] = len(perStep)
		for _, g := range groups {
			for _, q := range g.qs {
				if usesStartEnd(q) {
					continue
				}
				{
					d, data := g.name, g.data
					for _, w := range ws {
						if g.name == "c06" {
							// the data of C06 starts at 0 with 30 s spacing
							w.w = core.Range(0, 30000, w.w.NSteps())
						}
						c.Rep.Transitions++
						if !c.Mine() {
							continue
						}
						if c.Expired() {
							return
						}
						cs := &core.Case{Q: q, Data: data, W: w.w, O: g.o, Note: d}
						if !c.Progress(cs) {
							continue
						}
						ran, nt, sym, det, ev := c07Once(cs, w.sub)
						if !ran {
							c.Rep.Outcomes["unsupported"]++
							continue
						}
						c.Rep.States++
						c.Rep.Evaluations += ev
						c.Rep.Traces += ev
						if nt {
							c.Rep.Nontrivial++
						}
						if c.Shard == 0 {
							c.Sample(map[string]any{"q": q, "dataset": d, "window": w.w, "instant_queries": w.w.NSteps(), "sub_windows": len(w.sub)})
						}
						if sym == "" {
							c.Rep.Outcomes["agree"]++
							continue
						}
						if _, _, s2, _, _ := c07Once(cs, w.sub); s2 == "" {
							c.Rep.Extra["unreproduced_failures"]++
							continue
						}
						if hasK(q) && (strings.Contains(sym, "range-") || strings.HasPrefix(sym, "subwindow")) && kOperandHasTie(cs, storeFor(cs)) {
							// which of several equal values topk keeps is not a function of the inputs
							c.Rep.Extra["tie_rule_nested_accepted"]++
							c.Rep.Outcomes["agree-modulo-tie"]++
							continue
						}
						c.Rep.Outcomes["diff:"+sym]++
						cp := *cs
						c.Fail(check.Failure{Prop: "C07", Kind: "enum", Sub: "C07", Symptom: sym, Detail: det, Case: &cp})
					}
				}
			}
		}
	})
}
