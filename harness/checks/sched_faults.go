package checks

import (
	"errors"
	"fmt"
	"strings"

	"verif/harness/check"
	"verif/harness/core"
	"verif/harness/explore"
	"verif/harness/gen"
	"verif/harness/mstore"
)

// Schedule exploration combined with storage faults: errors (C15), runtime panics
// (C13) and querier accounting (C17) under every interleaving within the bound.

type faultScenario struct {
	name   string
	q      string
	procs  int
	steps  int
	faults []mstore.Fault
	d      int
	// remote: the faults go into the store of remote engine 1 of a distributed engine over
	// two remote engines instead of the coordinator's store
	remote bool
}

func schedFaultScenarios(action string) []faultScenario {
	f := func(kind string, series, nth int) mstore.Fault {
		return mstore.Fault{Kind: kind, Series: series, Nth: nth, Action: action}
	}
	return []faultScenario{
		// one fault per shard of a two-shard selector (series 0/1 -> shard 0, series 2 -> shard 1)
		{"F1:a/two shards fail in Next", `a`, 4, 2, []mstore.Fault{f("next", 0, 0), f("next", 2, 0)}, 2, false},
		{"F2:a/two shards fail while loading", `a`, 4, 2, []mstore.Fault{f("iterator", 0, 0), f("iterator", 2, 0)}, 2, false},
		{"F3:a/one shard fails late", `a`, 4, 12, []mstore.Fault{f("next", 2, 3)}, 1, false},
		{"F4:a+b/both sides fail while loading", `a + on (l) group_left b`, 2, 2, []mstore.Fault{f("select", -1, 0), f("select", -1, 1)}, 2, false},
		{"F5:a+b/left fails in Next", `a + on (l) group_left b`, 2, 2, []mstore.Fault{f("next", 1, 1)}, 2, false},
		{"F6:sum by (l)(a)/fault below workers", `sum by (l) (a)`, 4, 2, []mstore.Fault{f("next", 0, 1), f("next", 2, 1)}, 1, false},
		{"F7:rate/two shards", `rate(a[1m])`, 4, 2, []mstore.Fault{f("seek", 0, 0), f("next", 2, 1)}, 2, false},
		{"F8:-a/fault below unary workers", `-a`, 2, 2, []mstore.Fault{f("next", 1, 0)}, 2, false},
		{"F9:querier fails", `a + b`, 2, 2, []mstore.Fault{f("querier", -1, 1)}, 2, false},
		{"F10:clamp_min scalar arg fails", `clamp_min(a, scalar(b{l="0"}))`, 2, 2, []mstore.Fault{f("next", 3, 0)}, 2, false},
		// a failure in the 4th batch, when the exchange buffer (2 slots) may be full
		{"F11:a/failure in the 4th batch", `a`, 2, 41, []mstore.Fault{f("next", 0, 31)}, 2, false},
		{"F12:sum by (l)(a)/failure in the 4th batch", `sum by (l) (a)`, 2, 41, []mstore.Fault{f("next", 1, 33)}, 1, false},
		{"F13:a+b/failure in the 4th batch", `a + on (l) group_left b`, 2, 41, []mstore.Fault{f("next", 3, 35)}, 1, false},
		// the same kinds under delay bounding (a deviation stalls the passed-over threads)
		{"F14:a/failure in the 4th batch/delays", `a`, 2, 41, []mstore.Fault{f("next", 0, 31)}, 2, false},
		{"F15:a/one shard fails late/delays", `a`, 4, 12, []mstore.Fault{f("next", 2, 3)}, 2, false},
		{"F16:sum by (l)(a)/failure in the 2nd batch/delays", `sum by (l) (a)`, 2, 12, []mstore.Fault{f("next", 1, 11)}, 2, false},
		{"F17:a+b/left fails in the 2nd batch/delays", `a + on (l) group_left b`, 2, 12, []mstore.Fault{f("next", 1, 11)}, 1, false},
		// operands that load their series lazily (ungrouped aggregations), one of them failing in
		// Select, with a yield point in every storage callback: no operand may still be inside
		// the storage when Exec returns
		{"F18:sum(a)+sum(b)/select of b fails/store yields", `sum(a) + sum(b)`, 2, 2, []mstore.Fault{{Kind: "select", Sel: `{__name__="b"}@-290000,40000`, Series: -1, Nth: 0, Action: action}}, 2, false},
		{"F19:sum(a)+sum(b)/select of a fails/store yields", `sum(a) + sum(b)`, 2, 2, []mstore.Fault{{Kind: "select", Sel: `{__name__="a"}@-290000,40000`, Series: -1, Nth: 0, Action: action}}, 2, false},
		{"F20:max(a)-min(b)/iterator of b fails/store yields", `max(a) - min(b)`, 2, 2, []mstore.Fault{f("iterator", 3, 0)}, 1, false},
		// a distributed engine: the Select of one remote engine fails while the other remote
		// engines are still loading (yield points in every storage callback)
		{"F21:dist sum by (l)(a)/select fails in one remote engine/store yields/delays", `sum by (l) (a)`, 2, 2, []mstore.Fault{f("select", -1, 0)}, 2, true},
		{"F22:dist a/select fails in one remote engine/store yields/delays", `a`, 2, 2, []mstore.Fault{f("select", -1, 0)}, 2, true},
	}
}

var fired, notFired int64

func runFaultSched(c *check.Ctx, prop, action string, events []string, oracle func(root *explore.Obs) func(o *explore.Obs, s explore.Sched) (string, string)) {
	for _, fs := range schedFaultScenarios(action) {
		cs := core.Case{Q: fs.q, Data: gen.SchedData(fs.steps + 2), W: core.Range(10000, 30000, fs.steps), O: core.Opts{Procs: fs.procs, Optimizers: "none"}, Faults: fs.faults}
		d := fs.d
		if !c.Thorough() && d > 1 && (len(events) > 0) {
			d = 1
		}
		s := schedScenario{Scenario: explore.Scenario{Name: fs.name + "/" + action, Case: cs, Delay: strings.Contains(fs.name, "/delays"), StoreYield: strings.Contains(fs.name, "/store yields")}, DQuick: d, DThorough: fs.d}
		if fs.remote {
			s.Case.Faults = nil
			s.Case.NDist, s.Case.Dist = 2, []int{0, 1, 0, 1, 0}
			s.DistFaults = map[int][]mstore.Fault{1: fs.faults}
		}
		runSchedAllowFailingRoot(c, &s, prop, events, oracle)
		c.Rep.Extra["sched_faults_fired"] += fired
		c.Rep.Extra["sched_faults_not_reached"] += notFired
		fired, notFired = 0, 0
		if c.Expired() || c.Rep.HarnessErr != "" {
			return
		}
	}
}

// runSchedAllowFailingRoot is runSched for scenarios whose default schedule already
// returns an error (a fault fired): the base oracle is still applied to the root.
func runSchedAllowFailingRoot(c *check.Ctx, scn *schedScenario, prop string, events []string, oracle func(root *explore.Obs) func(o *explore.Obs, s explore.Sched) (string, string)) {
	runSched(c, scn, prop, events, oracle)
}

func init() {
	check.Register("C15/sched", func(c *check.Ctx) {
		runFaultSched(c, "C15", "error", nil, func(root *explore.Obs) func(o *explore.Obs, s explore.Sched) (string, string) {
			return func(o *explore.Obs, s explore.Sched) (string, string) {
				if sym, det := baseOracle(o); sym != "" {
					return sym, det
				}
				if len(o.Fired) == 0 {
					notFired++
					return "", "" // the schedule never reached the faulty callback
				}
				fired++
				if o.ExecErr == nil {
					return "storage-error-lost", fmt.Sprintf("storage faults %v fired but the query succeeded: %s", o.Fired, o.Res.String())
				}
				if !errors.Is(o.ExecErr, mstore.ErrInjected) {
					return "storage-error-not-wrapped", o.ExecErr.Error()
				}
				return "", ""
			}
		})
	})
	check.Register("C13/sched", func(c *check.Ctx) {
		runFaultSched(c, "C13", "panic-runtime", nil, func(root *explore.Obs) func(o *explore.Obs, s explore.Sched) (string, string) {
			return func(o *explore.Obs, s explore.Sched) (string, string) {
				if sym, det := baseOracle(o); sym != "" {
					return sym, det
				}
				if len(o.Fired) == 0 {
					return "", ""
				}
				if o.ExecErr == nil {
					return "panic-swallowed", fmt.Sprintf("a runtime panic in a storage callback (%v) was turned into a successful result: %s", o.Fired, o.Res.String())
				}
				return "", ""
			}
		})
	})
	check.Register("C17/sched", func(c *check.Ctx) {
		acct := func(root *explore.Obs) func(o *explore.Obs, s explore.Sched) (string, string) {
			return func(o *explore.Obs, s explore.Sched) (string, string) {
				if sym, det := baseOracle(o); sym != "" {
					return sym, det
				}
				if o.OpenAtRet != 0 {
					return "querier-open-at-return", fmt.Sprintf("%d queriers still open when Exec returned", o.OpenAtRet)
				}
				if o.Opens != o.Closes {
					return "querier-close-count", fmt.Sprintf("%d queriers opened, %d closes", o.Opens, o.Closes)
				}
				return "", ""
			}
		}
		runFaultSched(c, "C17", "error", nil, acct)
		runFaultSched(c, "C17", "panic-runtime", nil, acct)
		// and under cancellation at every step, without storage faults
		for _, s := range catalogue() {
			s := s
			switch s.Name[:3] {
			case "S1:", "S4a", "S6a", "S8:", "S10":
			default:
				continue
			}
			s.DQuick, s.DThorough = 1, 2
			runSched(c, &s, "C17", []string{"ctx-cancel"}, acct)
			if c.Expired() || c.Rep.HarnessErr != "" {
				return
			}
		}
		// with a yield point in every storage callback a goroutine can be parked inside
		// the storage (querier open) when the cancellation arrives
		for _, s := range catalogue() {
			s := s
			switch s.Name[:3] {
			case "S1:", "S4b", "S4a", "S6a", "S7:":
			default:
				continue
			}
			s.Name += "/store yields"
			s.StoreYield = true
			s.Case.W = core.Range(10000, 30000, 1)
			s.DQuick, s.DThorough = 1, 2
			runSched(c, &s, "C17", []string{"ctx-cancel", "query-cancel"}, acct)
			if c.Expired() || c.Rep.HarnessErr != "" {
				return
			}
		}
	})
}
