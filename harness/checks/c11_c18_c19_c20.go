package checks

import (
	"context"
	"encoding/json"
	"fmt"
	"math"
	"reflect"
	"sort"
	"strings"
	"time"

	"github.com/prometheus/prometheus/model/labels"
	"github.com/prometheus/prometheus/promql"
	"github.com/prometheus/prometheus/promql/parser"
	"github.com/prometheus/prometheus/storage"

	"github.com/thanos-community/promql-engine/engine"
	"github.com/thanos-community/promql-engine/execution"
	"github.com/thanos-community/promql-engine/execution/model"
	"github.com/thanos-community/promql-engine/logicalplan"
	"github.com/thanos-community/promql-engine/verifshim/opmon"

	"verif/harness/check"
	"verif/harness/core"
	"verif/harness/gen"
	"verif/harness/mstore"
)

// ---------------------------------------------------------------------------------
// C18: operator stream contract

func monSymptom(vs []opmon.Violation) (string, string) {
	if len(vs) == 0 {
		return "", ""
	}
	v := vs[0]
	return "contract:" + v.Clause, fmt.Sprintf("%s (built at %s): %s", v.Op, v.Site, v.Detail)
}

// step vectors flattened: (T, label-or-id, value)
type streamItem struct {
	T  int64
	ID uint64
	V  float64
}

// driveOperator builds the physical plan of a case and pulls it with the given order of
// Series calls: "S-first", "never", "between", "last".
func driveOperator(cs *core.Case, st *mstore.Store, order string) (items []streamItem, series []labels.Labels, err error, mon []opmon.Violation) {
	defer func() {
		if r := recover(); r != nil {
			err = fmt.Errorf("panic: %v", r)
		}
		mon = opmon.Take()
	}()
	opmon.Take()
	expr, perr := parser.ParseExpr(cs.Q)
	if perr != nil {
		return nil, nil, perr, nil
	}
	start, end := time.UnixMilli(cs.W.Start).UTC(), time.UnixMilli(cs.W.End).UTC()
	plan := logicalplan.New(expr, start, end).Optimize(logicalplan.NoOptimizers)
	core.SetProcs(cs.O.Procs)
	core.SetPool(cs.O.Pool)
	st.Reset()
	op, oerr := newPhysical(plan.Expr(), st, start, end, time.Duration(cs.W.Step)*time.Millisecond, 5*time.Minute)
	if oerr != nil {
		return nil, nil, oerr, nil
	}
	ctx, cancel := context.WithCancel(context.Background())
	defer func() {
		cancel()
		core.WaitQuiescent(5 * time.Second)
	}()
	if order == "S-first" || order == "S-twice" {
		if series, err = op.Series(ctx); err != nil {
			return
		}
		if order == "S-twice" {
			if _, err = op.Series(ctx); err != nil {
				return
			}
		}
	}
	for n := 0; n < 1000; n++ {
		var batch []model.StepVector
		batch, err = op.Next(ctx)
		if err != nil {
			return
		}
		if batch == nil {
			break
		}
		for _, v := range batch {
			for i := range v.SampleIDs {
				if i < len(v.Samples) {
					items = append(items, streamItem{v.T, v.SampleIDs[i], v.Samples[i]})
				}
			}
		}
		if order == "between" {
			if series, err = op.Series(ctx); err != nil {
				return
			}
		}
	}
	if order == "last" || order == "never" {
		// the list is requested after the stream ended (needed to name the ids)
		var serr error
		series, serr = op.Series(ctx)
		if serr != nil && order == "last" {
			err = serr
		}
	}
	sort.SliceStable(items, func(i, j int) bool {
		if items[i].T != items[j].T {
			return items[i].T < items[j].T
		}
		return items[i].ID < items[j].ID
	})
	return
}

// newPhysical calls execution.New through reflection, so that a change of its parameter
// list (an options struct instead of four values) does not stop the harness from building:
// arguments are matched by type, fields of an options struct by name.
func newPhysical(expr parser.Expr, st storage.Queryable, start, end time.Time, step, lookback time.Duration) (model.VectorOperator, error) {
	fn := reflect.ValueOf(execution.New)
	t := fn.Type()
	times := []time.Time{start, end}
	durs := []time.Duration{step, lookback}
	var args []reflect.Value
	for i := 0; i < t.NumIn(); i++ {
		in := t.In(i)
		switch {
		case reflect.TypeOf(start) == in && len(times) > 0:
			args = append(args, reflect.ValueOf(times[0]))
			times = times[1:]
		case reflect.TypeOf(step) == in && len(durs) > 0:
			args = append(args, reflect.ValueOf(durs[0]))
			durs = durs[1:]
		case in.Kind() == reflect.Ptr && in.Elem().Kind() == reflect.Struct:
			o := reflect.New(in.Elem())
			for name, v := range map[string]any{"Start": start, "End": end, "Step": step, "LookbackDelta": lookback} {
				if f := o.Elem().FieldByName(name); f.IsValid() && f.CanSet() && f.Type() == reflect.TypeOf(v) {
					f.Set(reflect.ValueOf(v))
				}
			}
			args = append(args, o)
		case reflect.TypeOf((*parser.Expr)(nil)).Elem() == in:
			args = append(args, reflect.ValueOf(&expr).Elem())
		case reflect.TypeOf((*storage.Queryable)(nil)).Elem() == in:
			args = append(args, reflect.ValueOf(&st).Elem())
		default:
			return nil, fmt.Errorf("harness: execution.New has a parameter of type %s that the harness cannot supply", in)
		}
	}
	out := fn.Call(args)
	var err error
	if e, ok := out[1].Interface().(error); ok {
		err = e
	}
	op, _ := out[0].Interface().(model.VectorOperator)
	return op, err
}

type namedItem struct {
	T int64
	L string
	V float64
}

// named resolves ids to label sets (ids are assigned per operator instance: the join
// numbers its outputs in map order) and sorts order-insensitively within a step.
func named(items []streamItem, series []labels.Labels) []namedItem {
	out := make([]namedItem, 0, len(items))
	for _, it := range items {
		l := "id-out-of-range:" + fmt.Sprint(it.ID)
		if int(it.ID) < len(series) {
			l = core.CanonLabels(series[it.ID])
		}
		out = append(out, namedItem{it.T, l, it.V})
	}
	sort.SliceStable(out, func(i, j int) bool {
		if out[i].T != out[j].T {
			return out[i].T < out[j].T
		}
		if out[i].L != out[j].L {
			return out[i].L < out[j].L
		}
		if math.IsNaN(out[i].V) {
			return !math.IsNaN(out[j].V)
		}
		return out[i].V < out[j].V
	})
	return out
}

func sameStream(a, b []namedItem) bool {
	if len(a) != len(b) {
		return false
	}
	for i := range a {
		if a[i].T != b[i].T || a[i].L != b[i].L || !core.ValEq(a[i].V, b[i].V) {
			return false
		}
	}
	return true
}

func c18Orders(cs *core.Case) (ran bool, sym, det string) {
	st := storeFor(cs)
	base, bser, berr, bmon := driveOperator(cs, st, "S-first")
	if berr != nil && (strings.Contains(berr.Error(), "unsupported") || strings.Contains(berr.Error(), "not implemented")) {
		return false, "", ""
	}
	if s, d := monSymptom(bmon); s != "" {
		return true, s, "Series first: " + d
	}
	bk := named(base, bser)
	for _, order := range []string{"never", "between", "last", "S-twice"} {
		items, ser, err, mon := driveOperator(cs, st, order)
		if (err != nil) != (berr != nil) {
			// a tied topk keeps a different series from run to run (F12): what fails to
			// match against it above differs with it
			if hasK(cs.Q) && kOperandHasTie(cs, st) {
				continue
			}
			return true, "call-order:error", fmt.Sprintf("call order %q: err=%v; Series first: err=%v", order, err, berr)
		}
		if s, d := monSymptom(mon); s != "" {
			return true, s, fmt.Sprintf("call order %q: %s", order, d)
		}
		if err != nil {
			continue
		}
		if !sameStream(named(items, ser), bk) {
			// order-insensitive value comparison for non-deterministic tie choices
			if hasK(cs.Q) && len(items) == len(base) {
				continue
			}
			// which of several tied series a topk keeps differs from run to run (finding
			// F12, reported by C11): what is matched against it above differs with it
			if hasK(cs.Q) && kOperandHasTie(cs, st) {
				continue
			}
			return true, "call-order:stream", fmt.Sprintf("call order %q yields a different (T, series, value) stream than requesting the series first (%d vs %d samples)", order, len(items), len(base))
		}
	}
	return true, "", ""
}

func init() {
	check.Replayers["enum:C18/orders"] = func(f *check.Failure) (string, string) {
		_, s, d := c18Orders(f.Case)
		return s, d
	}
	check.Replayers["enum:C18/monitor"] = func(f *check.Failure) (string, string) {
		o := core.RunEngine(f.Case, storeFor(f.Case))
		for _, m := range o.Mon {
			fmt.Printf("  %s %s %s: %s\n", m.Clause, m.Op, m.Site, m.Detail)
		}
		return monSymptom(o.Mon)
	}
	check.Register("C18/enum", func(c *check.Ctx) {
		f := gen.FullDepth1()
		depth := 2
		k := gen.KDepth(depth)
		qs := append([]string(nil), f.List...)
		for _, q := range k.List {
			if !f.Has(q) {
				qs = append(qs, q)
			}
		}
		c.Rep.Transitions += f.Transitions + k.Transitions
		c.Rep.Bounds["queries"] = len(qs)
		before := opmon.NextCalls
		// monitor over the query space
		ws := []core.Window{core.Instant(45000), core.Range(10000, 30000, 12), core.Range(0, 45000, 21)}
		dss := []string{"D1", "D2"}
		if c.Thorough() {
			ws = windowsAll()
			dss = []string{"D1", "D2", "D3", "D4"}
		}
		for qi, q := range qs {
			for _, d := range dss {
				data := dataset(d)
				for _, w := range ws {
					c.Rep.Transitions++
					if !c.Mine() {
						continue
					}
					if c.Expired() {
						return
					}
					cs := &core.Case{Q: q, Data: data, W: w, O: core.Opts{Optimizers: "none"}, Note: d}
					if !c.Progress(cs) {
						continue
					}
					o := core.RunEngine(cs, storeFor(cs))
					if o.Res.CreateErr != "" {
						continue
					}
					c.Rep.States++
					c.Rep.Evaluations++
					c.Rep.Traces++
					if o.Res.NPoints() > 0 {
						c.Rep.Nontrivial++
					}
					if c.Shard == 0 {
						c.Sample(map[string]any{"kind": "monitor", "q": q, "dataset": d, "window": w})
					}
					sym, det := engineSymptom(o)
					if sym == "" {
						sym, det = monSymptom(o.Mon)
					}
					if sym == "" {
						c.Rep.Outcomes["monitor:ok"]++
					} else {
						c.Rep.Outcomes["monitor:"+sym]++
						cp := *cs
						c.Fail(check.Failure{Prop: "C18", Kind: "enum", Sub: "C18/monitor", Symptom: sym, Detail: det, Case: &cp})
					}
					// call orders on the depth-1 alphabets (and every fourth composition state)
					if qi < len(f.List) || qi%4 == 0 || c.Thorough() {
						ran, s2, d2 := c18Orders(cs)
						if ran {
							c.Rep.Evaluations += 5
							c.Rep.Traces += 5
							if s2 == "" {
								c.Rep.Outcomes["orders:ok"]++
							} else {
								c.Rep.Outcomes["orders:"+s2]++
								cp := *cs
								c.Fail(check.Failure{Prop: "C18", Kind: "enum", Sub: "C18/orders", Symptom: s2, Detail: d2, Case: &cp})
							}
						}
					}
				}
			}
		}
		c.Rep.Extra["monitored_next_calls"] += opmon.NextCalls - before
		c.Rep.Extra["monitored_step_vectors"] += opmon.Vectors
		c.Rep.Extra["monitored_operators"] += opmon.Operators
	})
}

// ---------------------------------------------------------------------------------
// C19: well-formed results

func c19Data() []core.SeriesSpec {
	ext := []float64{1.7e308, -1.7e308, 5e-324, math.Copysign(0, -1), 1e-310, 8.9e307, math.Inf(1), math.NaN(), 0, 1}
	var out []core.SeriesSpec
	for i, l := range []string{`a{l="0",m="0"}`, `a{l="0",m="1"}`, `a{l="1"}`, `b{l="0"}`, `b{l="1"}`, `c{l="0",m="0"}`, `{__name__="a",l="2",z="9"}`} {
		s := core.SeriesSpec{L: l}
		for k := 0; k < 40; k++ {
			s.S = append(s.S, p(int64(k)*30000, ext[(k+3*i)%len(ext)]))
		}
		out = append(out, s)
	}
	return out
}

func init() {
	check.Register("C19/enum", func(c *check.Ctx) {
		f := gen.FullDepth1()
		k := gen.KDepth(2)
		qs := append([]string(nil), f.List...)
		for _, q := range k.List {
			if !f.Has(q) {
				qs = append(qs, q)
			}
		}
		collide := []string{`abs({__name__=~"a|b"})`, `-{l="0"}`, `{l="0",m="0"} + 1`, `rate({__name__=~"a|c"}[1m])`, `{__name__=~"a|b|c"} * 2`, `sum_over_time({l="0"}[1m])`,
			`a + on (l) group_left (m) b`, `b + on (l) group_right (m) a`, `{__name__=~"a|b"} == bool 1`, `ceil({m="0"})`, `clamp_min({l="0",m="0"}, 1)`, `{l="1"} > bool 0`,
			`last_over_time({l="0"}[1m])`, `{__name__=~"a|c"} and a`, `max without (l) ({__name__=~"a|b"})`, `a * on (l) group_left (z) {z="9"}`, `a - ignoring (m) group_left b`}
		for _, q := range collide {
			if cq := gen.Canon(q); cq != "" {
				qs = append(qs, cq)
			}
		}
		c.Rep.Transitions += f.Transitions + k.Transitions
		c.Rep.Bounds["queries"] = len(qs)
		ws := []core.Window{core.Instant(45000), core.Range(10000, 30000, 12), core.Range(0, 45000, 21)}
		type dsn struct {
			name  string
			data  []core.SeriesSpec
			ndist int
			only  []string // if set, the queries run over this dataset instead of the grammar
		}
		// the last one: the same through a distributed engine over two remote engines
		dss := []dsn{{"D2", dataset("D2"), 0, nil}, {"D3", dataset("D3"), 0, nil}, {"extreme", c19Data(), 0, nil}, {"D5", dataset("D5"), 0, nil}, {"D1 distributed", dataset("D1"), 2, nil},
			// histogram buckets (labels before and after le, equal bounds, missing +Inf)
			{"C06 histograms", dataset("C06"), 0, []string{`histogram_quantile(0.5, h_bucket)`, `histogram_quantile(0.9, rate(h_bucket[1m]))`, `histogram_quantile(0.5, sum by (le, pod, zone) (h_bucket))`,
				`histogram_quantile(0.99, h_bucket{l="4"})`, `sum by (zone) (histogram_quantile(0.5, h_bucket))`, `histogram_quantile(scalar(b{l="0"}) / 5, h_bucket)`, `-histogram_quantile(0.5, h_bucket)`}}}
		for qi, q := range qs {
			for _, d := range dss {
				if d.only != nil {
					if qi >= len(d.only) {
						continue
					}
					q = d.only[qi]
				}
				for _, w := range ws {
					c.Rep.Transitions++
					if !c.Mine() {
						continue
					}
					if c.Expired() {
						return
					}
					// the storage shares its label slices between calls, as a TSDB head does
					cs := &core.Case{Q: q, Data: d.data, W: w, O: core.Opts{Optimizers: "none"}, Note: d.name, ShareLabels: true}
					if d.ndist > 0 {
						cs.NDist, cs.Dist, cs.ShareLabels = d.ndist, []int{0, 1, 0, 1, 0, 1, 0, 1}, false
					}
					if !c.Progress(cs) {
						continue
					}
					o := core.RunEngine(cs, storeFor(cs))
					if o.Res.CreateErr != "" {
						continue
					}
					c.Rep.States++
					c.Rep.Evaluations++
					c.Rep.Traces++
					if !o.Res.Failed() && o.Res.NPoints() > 0 {
						c.Rep.Nontrivial++
					}
					if c.Shard == 0 {
						c.Sample(map[string]any{"q": q, "dataset": d.name, "window": w})
					}
					sym, det := engineSymptom(o)
					if sym == "" && len(o.WF) > 0 {
						sym = strings.SplitN(o.WF[0], " ", 2)[0]
						det = strings.Join(o.WF, "; ")
					}
					if sym == "" {
						c.Rep.Outcomes["well-formed"]++
						continue
					}
					c.Rep.Outcomes[sym]++
					cp := *cs
					c.Fail(check.Failure{Prop: "C19", Kind: "enum", Sub: "C19", Symptom: sym, Detail: det, Case: &cp})
				}
			}
		}
	})
	check.Replayers["enum:C19"] = func(f *check.Failure) (string, string) {
		o := core.RunEngine(f.Case, storeFor(f.Case))
		fmt.Printf("query %s\nresult %s\nwell-formedness: %v\n", f.Case.Q, o.Res, o.WF)
		if len(o.WF) > 0 {
			return strings.SplitN(o.WF[0], " ", 2)[0], strings.Join(o.WF, "; ")
		}
		return engineSymptom(o)
	}
}

// ---------------------------------------------------------------------------------
// C11 (configuration half): cores, series order, unrelated data, repetitions

func permutations(n int) [][]int {
	var out [][]int
	var rec func(cur []int, used []bool)
	rec = func(cur []int, used []bool) {
		if len(cur) == n {
			out = append(out, append([]int(nil), cur...))
			return
		}
		for i := 0; i < n; i++ {
			if !used[i] {
				used[i] = true
				rec(append(cur, i), used)
				used[i] = false
			}
		}
	}
	rec(nil, make([]bool, n))
	return out
}

func c11Data(n int) []core.SeriesSpec {
	var out []core.SeriesSpec
	for i := 0; i < n; i++ {
		// distinct values everywhere (no topk ties), a few distinct l groups
		out = append(out, gen.Regular(fmt.Sprintf(`a{l="%d",m="%d"}`, i%3, i), 0, 30000, 14, float64(1000*(i+1)), 1+float64(i)*0.125))
	}
	out = append(out, gen.Regular(`b{l="0"}`, 0, 30000, 14, 3, 1), gen.Regular(`b{l="1"}`, 0, 30000, 14, 5.5, 2), gen.Regular(`b{l="2"}`, 0, 30000, 14, 7.25, 3))
	return out
}

// c11SpecialData: like c11Data with series 1 a (non-stale) NaN at every sample and
// series 0 infinite at every other sample.
func c11SpecialData(n int) []core.SeriesSpec {
	out := c11Data(n)
	for i := range out[1].S {
		out[1].S[i].V = core.F(math.NaN())
	}
	for i := range out[0].S {
		if i%2 == 0 {
			out[0].S[i].V = core.F(math.Inf(1))
		}
	}
	return out
}

var c11Queries = []string{`a`, `rate(a[1m])`, `sum by (l) (a)`, `sum(a)`, `avg(a)`, `topk(2, a)`, `bottomk by (l) (1, a)`, `quantile(0.5, a)`, `a + on (l) group_left b`,
	`a * 2`, `-a`, `count by (l) (a > 3000)`, `max without (m) (a)`, `abs(a) + a`, `stddev by (l) (a)`, `a @ 45.000`, `sum by (l) (a) / on (l) b`}

func init() {
	check.Register("C11/enum", func(c *check.Ctx) {
		maxN := 12
		procs := []int{1, 2, 3, 4, 6, 8, 16}
		if c.Thorough() {
			maxN = 40
			procs = []int{1, 2, 3, 4, 5, 6, 7, 8, 10, 12, 14, 16}
		}
		c.Rep.Bounds["enum:series_counts"] = fmt.Sprintf("0..%d", maxN)
		c.Rep.Bounds["enum:gomaxprocs"] = procs
		c.Rep.Bounds["enum:permutations"] = "all for n<=5 (quick n<=4), rotations+reversal beyond"
		junk := []core.SeriesSpec{gen.Regular(`zz{l="0"}`, 0, 30000, 14, 1, 1), gen.Regular(`c{l="1",m="0"}`, 0, 30000, 14, 2, 1), gen.Regular(`aa{l="2"}`, 0, 30000, 14, 9, 9)}
		w := core.Range(10000, 30000, 12)
		fullPerm := 4
		if c.Thorough() {
			fullPerm = 5
		}
		type cq struct{ q, opt string }
		for pass := 0; pass < 3; pass++ {
			for n := 0; n <= maxN; n++ {
				base := c11Data(n)
				if pass == 1 {
					// second pass: a NaN member and an infinite member (no ties: one of each),
					// all storage orders of up to 6 series
					if n < 2 || n > 6 {
						continue
					}
					base = c11SpecialData(n)
				}
				if pass == 2 {
					// third pass: result series that share a label set once the metric name is
					// dropped and take turns in time (the engine merges them into one series),
					// with other series between them in every storage order
					if n != 4 {
						continue
					}
					base = []core.SeriesSpec{gen.Regular(`a{l="0"}`, 0, 30000, 5, 1, 1), gen.Regular(`d{l="0"}`, 210000, 30000, 7, 50, 1), gen.Regular(`a{l="1"}`, 0, 30000, 14, 100, 1),
						gen.Regular(`d{l="2"}`, 0, 30000, 14, 200, 1), gen.Regular(`b{l="0"}`, 0, 30000, 14, 3, 1)}
				}
				na := n
				var perms [][]int
				if na <= fullPerm || (pass == 1 && na <= 5) {
					perms = permutations(na)
				} else {
					for r := 0; r < na; r += (na + 5) / 6 {
						pm := make([]int, na)
						for i := range pm {
							pm[i] = (i + r) % na
						}
						perms = append(perms, pm)
					}
					rev := make([]int, na)
					for i := range rev {
						rev[i] = na - 1 - i
					}
					perms = append(perms, rev)
				}
				var cqs []cq
				for _, q := range c11Queries {
					cqs = append(cqs, cq{q, "none"})
				}
				if pass == 1 {
					cqs = nil
					for _, q := range []string{`topk(2, a)`, `bottomk(2, a)`, `topk(3, a)`, `bottomk(1, a)`, `topk by (l) (1, a)`, `max(a)`, `min(a)`, `sum(a)`, `avg(a)`, `quantile(0.5, a)`, `max by (l) (a)`} {
						cqs = append(cqs, cq{q, "none"})
					}
				}
				if pass == 2 {
					cqs = nil
					for _, q := range []string{`abs({__name__=~"a|d"})`, `-{__name__=~"a|d"}`, `{__name__=~"a|d"} + 1`, `sum_over_time({__name__=~"a|d"}[1m])`, `{__name__=~"a|d"} * on (l) group_left b`} {
						cqs = append(cqs, cq{q, "none"})
					}
				}
				// with the default optimizers both operands share one merged select
				cqs = append(cqs, cq{`a{l="0"} + a`, ""}, cq{`sum(a{l="1"}) / sum(a)`, ""}, cq{`a + on (m) group_left a{l="0"}`, ""})
				// tied values: which series topk keeps (known finding F12)
				if pass == 0 {
					cqs = append(cqs, cq{`topk(1, a * 0)`, "none"}, cq{`bottomk by (l) (1, clamp_max(a, 1))`, "none"})
				}
				for _, qo := range cqs {
					q := qo.q
					ref := core.RunEngine(&core.Case{Q: q, Data: base, W: w, O: core.Opts{Optimizers: qo.opt, Procs: 2}}, storeFor(&core.Case{Data: base}))
					for _, pm := range perms {
						for _, withJunk := range []bool{false, true} {
							data := make([]core.SeriesSpec, 0, len(base)+3)
							for _, i := range pm {
								data = append(data, base[i])
							}
							data = append(data, base[na:]...)
							if withJunk {
								data = append(append([]core.SeriesSpec{junk[0]}, data...), junk[1:]...)
							}
							for _, pr := range procs {
								c.Rep.Transitions++
								if !c.Mine() {
									continue
								}
								if c.Expired() {
									return
								}
								cs := &core.Case{Q: q, Data: data, W: w, O: core.Opts{Optimizers: qo.opt, Procs: pr}, Note: fmt.Sprintf("n=%d perm=%v junk=%v", n, pm, withJunk)}
								if strings.Contains(q, "a * 0") || strings.Contains(q, "clamp_max(a, 1)") {
									cs.Note += " feat:k-tie"
								}
								if !c.Progress(cs) {
									continue
								}
								st, _ := core.BuildStore(data)
								sym, det := "", ""
								for rep := 0; rep < 2 && sym == ""; rep++ {
									o := core.RunEngine(cs, st)
									c.Rep.Evaluations++
									c.Rep.Traces++
									if s, d := engineSymptom(o); s != "" {
										sym, det = s, d
									} else if s, d := core.Diff(ref.Res, o.Res, false); s != "" {
										sym, det = "config:"+s, fmt.Sprintf("GOMAXPROCS=%d, storage order %v, junk=%v (repetition %d) vs GOMAXPROCS=2, identity order: %s", pr, pm, withJunk, rep, d)
									}
								}
								c.Rep.States++
								if ref.Res.NPoints() > 0 {
									c.Rep.Nontrivial++
								}
								if c.Shard == 0 {
									c.Sample(map[string]any{"q": q, "series": n, "gomaxprocs": pr, "storage_order": pm, "junk": withJunk})
								}
								if sym == "" {
									c.Rep.Outcomes["enum:agree"]++
									continue
								}
								c.Rep.Outcomes["enum:"+sym]++
								cp := *cs
								c.Fail(check.Failure{Prop: "C11", Kind: "enum", Sub: "C11/enum", Symptom: sym, Detail: det, Case: &cp})
							}
						}
					}
				}
			}
		}
	})
	check.Replayers["enum:C11/enum"] = func(f *check.Failure) (string, string) {
		st, _ := core.BuildStore(f.Case.Data)
		o := core.RunEngine(f.Case, st)
		refc := *f.Case
		refc.O.Procs = 2
		r := core.RunRef(&refc, st)
		fmt.Printf("engine (GOMAXPROCS=%d): %s\nreference engine: %s\n", f.Case.O.Procs, o.Res, r)
		if s, d := core.Diff(r, o.Res, false); s != "" {
			return "config:" + s, d
		}
		return "", ""
	}
}

// ---------------------------------------------------------------------------------
// C20: histories on one long-lived engine

type histOp struct {
	Kind string `json:"kind"` // query | query-lookback | query-shifted | failing | instant | instant-failing | cancelled | fallback | append-sample | append-series
	Q    string `json:"q,omitempty"`
}

var histOps = []histOp{
	{"query", `a`}, {"query", `sum by (l) (rate(a[1m]))`}, {"query", `a + on (l) group_left b`}, {"query", `topk(1, a) + scalar(sum(b))`},
	{"query", `h_bucket`}, {"query", `histogram_quantile(0.5, h_bucket)`}, {"query-lookback", `a`},
	{"query-shifted", `a @ start() + a @ end()`}, {"failing", `a + on (l) b`}, {"instant", `abs(a)`}, {"instant-failing", `abs({__name__=~"a|b"})`}, {"cancelled", `sum by (l) (a)`}, {"fallback", `count_values("v", a)`}, {"append-sample", ""}, {"append-series", ""},
}

type kept struct {
	raw    *promql.Result
	snap   *core.Result
	q      promql.Query
	op     histOp
	closed bool
}

func histData() []mstore.Series {
	st, _ := core.BuildStore([]core.SeriesSpec{
		gen.Regular(`a{l="0",m="0"}`, 0, 30000, 10, 1, 1), gen.Regular(`a{l="0",m="1"}`, 0, 30000, 10, 10, 2), gen.Regular(`a{l="1"}`, 0, 30000, 10, 100, 0.5),
		gen.Regular(`b{l="0"}`, 0, 30000, 10, 5, 1), gen.Regular(`b{l="1"}`, 0, 30000, 10, 2.25, 3),
		gen.Regular(`h_bucket{l="0",le="1",z="1"}`, 0, 30000, 10, 3, 3), gen.Regular(`h_bucket{l="0",le="+Inf",z="1"}`, 0, 30000, 10, 10, 10)})
	return st.Series
}

func runHistory(ops []histOp, pool string) (sym, det string, evals int64) {
	core.SetProcs(4)
	core.SetPool(pool)
	st := mstore.New(histData())
	// under the deterministic pool policies the storage also hands out the very same label
	// slices on every call (as promql.NewStorageSeries or an in-memory store does)
	st.ShareLabels = pool != "real"
	eo := core.EngineOpts(core.Opts{Optimizers: "", Fallback: true}, nil)
	long := engine.New(eo)
	w := core.Range(10000, 30000, 12)
	var keptRes []kept
	appended := 0
	var qopts *promql.QueryOpts
	instant := false
	shift := int64(0) // "query-shifted": the same text over a window that moves with the position in the history
	exec := func(e rangeEngine, q string, cancelIt bool) (*promql.Result, promql.Query, error) {
		var qq promql.Query
		var err error
		if instant {
			qq, err = e.NewInstantQuery(st, qopts, q, time.UnixMilli(100000).UTC())
		} else {
			qq, err = e.NewRangeQuery(st, qopts, q, time.UnixMilli(w.Start+shift).UTC(), time.UnixMilli(w.End+shift).UTC(), time.Duration(w.Step)*time.Millisecond)
		}
		if err != nil {
			return nil, nil, err
		}
		ctx, cancel := context.WithCancel(context.Background())
		if cancelIt {
			cancel()
		}
		res := qq.Exec(ctx)
		cancel()
		return res, qq, nil
	}
	for i, op := range ops {
		switch op.Kind {
		case "append-sample":
			for n := range st.Series {
				s := &st.Series[n]
				last := s.Samples[len(s.Samples)-1]
				s.Samples = append(s.Samples, mstore.Sample{T: last.T + 30000, V: last.V + 7})
			}
			appended++
		case "append-series":
			appended++
			st.Series = append(st.Series, mstore.Series{Labels: labels.FromStrings("__name__", "a", "l", "0", "m", fmt.Sprintf("n%d", appended)),
				Samples: []mstore.Sample{{T: 0, V: 1000 * float64(appended)}, {T: 60000, V: 1000*float64(appended) + 1}, {T: 240000, V: 7}}})
		default:
			qopts = nil
			instant = strings.HasPrefix(op.Kind, "instant")
			shift = 0
			if op.Kind == "query-shifted" {
				shift = int64(i) * 30000
			}
			if op.Kind == "query-lookback" {
				// a per-query lookback shorter than the gap of the series appended later
				qopts = &promql.QueryOpts{LookbackDelta: 20 * time.Second}
			}
			res, qq, err := exec(long, op.Q, op.Kind == "cancelled")
			evals++
			if err != nil {
				return "history:create-error", fmt.Sprintf("op %d %v: %v", i, op, err), evals
			}
			fresh := engine.New(eo)
			want, wq, _ := exec(fresh, op.Q, op.Kind == "cancelled")
			evals++
			got, exp := core.Canon(res), core.Canon(want)
			wq.Close()
			if s, d := core.Diff(exp, got, false); s != "" {
				if !(hasK(op.Q) && tieEqual(exp, got)) {
					return "history:" + s, fmt.Sprintf("op %d %v on the long-lived engine differs from a fresh engine on the current data: %s", i, op, d), evals
				}
			}
			k := kept{raw: res, snap: got, q: qq, op: op}
			// close every second query right away, the others stay open until the end
			// (each query is closed exactly once: promql.Query.Close is not idempotent)
			if i%2 == 0 {
				qq.Close()
				k.closed = true
			}
			keptRes = append(keptRes, k)
		}
		// every earlier result must be untouched. The result of a fallback query belongs to
		// the Prometheus engine, whose Query.Close recycles the result's memory by
		// contract: it is only checked while its query is open.
		for j, k := range keptRes {
			if k.op.Kind == "fallback" && k.closed {
				continue
			}
			now := core.Canon(k.raw)
			if s, d := core.Diff(k.snap, now, true); s != "" {
				return "result-altered:" + s, fmt.Sprintf("the result returned by op #%d (%v) changed after op %d (%v): %s", j, k.op, i, op, d), evals
			}
		}
	}
	for _, k := range keptRes {
		if !k.closed {
			k.q.Close()
		}
	}
	for j, k := range keptRes {
		if k.op.Kind == "fallback" {
			continue
		}
		now := core.Canon(k.raw)
		if s, d := core.Diff(k.snap, now, true); s != "" {
			return "result-altered:" + s, fmt.Sprintf("the result returned by op #%d (%v) changed after closing the queries: %s", j, k.op, d), evals
		}
	}
	core.WaitQuiescent(5 * time.Second)
	return "", "", evals
}

type rangeEngine interface {
	NewRangeQuery(q storage.Queryable, opts *promql.QueryOpts, qs string, start, end time.Time, interval time.Duration) (promql.Query, error)
	NewInstantQuery(q storage.Queryable, opts *promql.QueryOpts, qs string, ts time.Time) (promql.Query, error)
}

func init() {
	check.Register("C20/hist", func(c *check.Ctx) {
		depth := 4
		if c.Thorough() {
			depth = 5
		}
		pools := []string{"real", "fresh", "lifo"}
		c.Rep.Bounds["history_depth"] = depth
		c.Rep.Bounds["operations"] = histOps
		c.Rep.Bounds["pool_policies"] = pools
		var rec func(cur []histOp)
		stop := false
		rec = func(cur []histOp) {
			if stop {
				return
			}
			if len(cur) > 0 {
				for _, pool := range pools {
					c.Rep.Transitions++
					if !c.Mine() {
						continue
					}
					if c.Expired() {
						stop = true
						return
					}
					hb, _ := json.Marshal(map[string]any{"ops": cur, "pool": pool})
					if !c.Progress(json.RawMessage(hb)) {
						continue
					}
					sym, det, ev := runHistory(cur, pool)
					c.Rep.States++
					c.Rep.Evaluations += ev
					c.Rep.Traces += ev
					if len(cur) > 1 {
						c.Rep.Nontrivial++
					}
					if c.Shard == 0 {
						c.Sample(map[string]any{"history": cur, "pool": pool})
					}
					if sym == "" {
						c.Rep.Outcomes["history:ok"]++
						continue
					}
					if s2, _, _ := runHistory(cur, pool); s2 == "" {
						c.Rep.Extra["unreproduced_failures"]++
						continue
					}
					c.Rep.Outcomes[sym]++
					qs := []string{}
					for _, o := range cur {
						qs = append(qs, o.Kind+":"+o.Q)
					}
					c.Fail(check.Failure{Prop: "C20", Kind: "history", Sub: "C20/hist", Symptom: sym, Detail: det, History: hb,
						Case: &core.Case{Q: strings.Join(qs, " ; "), Note: "pool " + pool}, Features: []string{"history", "pool:" + pool}})
				}
			}
			if len(cur) == depth {
				return
			}
			for _, op := range histOps {
				rec(append(append([]histOp(nil), cur...), op))
			}
		}
		rec(nil)
	})
	check.Replayers["history:C20/hist"] = func(f *check.Failure) (string, string) {
		var h struct {
			Ops  []histOp `json:"ops"`
			Pool string   `json:"pool"`
		}
		json.Unmarshal(f.History, &h)
		s, d, _ := runHistory(h.Ops, h.Pool)
		return s, d
	}
}
