// Package checks holds the property checks. This file: the E-SCHED scenarios.
package checks

import (
	"context"
	"errors"
	"fmt"
	"os"
	"strings"

	"verif/harness/check"
	"verif/harness/core"
	"verif/harness/explore"
	"verif/harness/gen"
)

func schedCase(q string, procs, nsteps int) core.Case {
	return core.Case{Q: q, Data: gen.SchedData(nsteps + 2), W: core.Range(10000, 30000, nsteps), O: core.Opts{Procs: procs, Optimizers: "none"}}
}

type schedScenario struct {
	explore.Scenario
	DQuick, DThorough int
}

func sc(name, q string, procs, nsteps, dq, dt int) schedScenario {
	return schedScenario{Scenario: explore.Scenario{Name: name, Case: schedCase(q, procs, nsteps)}, DQuick: dq, DThorough: dt}
}

// catalogue of small sharp drivers (DESIGN.md §1.4)
func catalogue() []schedScenario {
	s2 := sc("S2:a/3shards/1series", `a{l="1"}`, 6, 1, 3, 4)
	dist := sc("S10:dist sum by (l)(a)", `sum by (l)(a)`, 2, 2, 1, 2)
	dist.Case.NDist = 2
	dist.Case.Dist = []int{0, 1, 0, 1, 0}
	inst := sc("S11:instant a", `a`, 4, 1, 3, 4)
	inst.Case.W = core.Instant(40000)
	pp := sc("S12:a/2shards/poolpoints", `a`, 4, 1, 2, 3)
	pp.PoolPoints = true
	yp := sc("S13:sum by (l)(a)/yields", `sum by (l)(a)`, 2, 2, 1, 2)
	yp.YieldPoints = true
	yp.StoreYield = true
	ms := sc("S14:a{l=0}+a/merged selects", `a{l="0"} + a`, 4, 2, 1, 2)
	ms.Case.O.Optimizers = ""
	// merged selects with a yield point in every storage callback: the filtered operand can
	// load while a plain shard is inside its series-loading loop
	my := sc("S15:a{l=0}+a/merged selects/store yields", `a{l="0"} + a`, 4, 1, 2, 2)
	my.Case.O.Optimizers = ""
	my.StoreYield = true
	// delay bounding (verifshim.RunOpts.Delay): one deviation stalls a thread while all the
	// others run as far as they can, e.g. the consumer of a batch while its producer goes
	// on for several batches
	s16d := sc("S18:sum by (l)(sum by (l,m)(a))/40steps/delays", `sum by (l) (sum by (l, m) (a))`, 2, 40, 1, 2)
	s16d.Delay = true
	s4d := sc("S19:sum by (l)(a)/12steps/delays", `sum by (l)(a)`, 2, 12, 1, 2)
	s4d.Delay = true
	s1d := sc("S20:a/2shards/12steps/delays", `a`, 4, 12, 1, 2)
	s1d.Delay = true
	s6d := sc("S21:a+b/12steps/delays", `a + on(l) group_left b`, 2, 12, 1, 2)
	s6d.Delay = true
	// operands that have series but no sample during the first batch (late starters), over
	// three batches: workers are handed empty step vectors first
	late := func(name, q string, delay bool) schedScenario {
		x := sc(name, q, 2, 22, 1, 1)
		x.Case.Data = []core.SeriesSpec{gen.Regular(`a{l="0",m="0"}`, 310000, 30000, 13, 1, 1), gen.Regular(`a{l="1",m="1"}`, 340000, 30000, 12, 10, 2),
			gen.Regular(`b{l="0"}`, 0, 30000, 24, 5, 1)}
		x.Case.O.LookbackMs = 20000
		x.Delay = delay
		return x
	}
	s22 := late("S22:-a/late starters/22steps", `-a`, false)
	s23 := late("S23:-a/late starters/22steps/delays", `-a`, true)
	s24 := late("S24:sum by (l)(-a)/late starters/22steps/delays", `sum by (l) (-a)`, true)
	return []schedScenario{
		sc("S1:a/2shards", `a`, 4, 2, 3, 4),
		s2,
		sc("S3:rate(a[1m])/2shards", `rate(a[1m])`, 4, 3, 2, 2),
		sc("S4a:sum by (l)(a)", `sum by (l)(a)`, 4, 2, 2, 2),
		sc("S4b:sum(a)", `sum(a)`, 2, 2, 3, 3),
		sc("S5:topk(1,a)", `topk(1, a)`, 2, 2, 2, 2),
		sc("S6a:a+b", `a + on(l) group_left b`, 2, 2, 1, 2),
		sc("S6b:a+1", `a + 1`, 2, 2, 3, 3),
		sc("S6c:clamp_min(a,scalar(b))", `clamp_min(a, scalar(b{l="0"}))`, 2, 2, 1, 2),
		sc("S7:-a", `-a`, 2, 2, 2, 3),
		sc("S8:a@10+a", `a @ 10 + a`, 2, 2, 1, 2),
		sc("S9a:a/31steps", `a`, 2, 31, 1, 2),
		sc("S9b:sum by (l)(a)/31steps", `sum by (l)(a)`, 2, 31, 1, 1),
		// an aggregation fed by another aggregation (not by a coalesce): the inner one runs
		// ahead on its own goroutine by up to two batches and takes recycled batch slices
		// back out of its pool while the outer one may still be reading them
		sc("S16:sum by (l)(sum by (l,m)(a))/40steps", `sum by (l) (sum by (l, m) (a))`, 2, 40, 1, 2),
		sc("S17:max(-sum by (l)(a))/40steps", `max(-sum by (l) (a))`, 2, 40, 1, 1),
		dist, inst, pp, yp, ms, my, s16d, s4d, s1d, s6d, s22, s23, s24,
	}
}

func baseOracle(o *explore.Obs) (string, string) {
	if o.Run.Horizon {
		return "livelock", "step horizon exceeded"
	}
	if o.Run.Deadlock {
		return "deadlock", fmt.Sprint(o.Run.BlockedOps)
	}
	if len(o.Run.Blocked) > 0 {
		return "leak", fmt.Sprint(o.Run.BlockedOps)
	}
	if len(o.Panics) > 0 {
		return "panic@" + o.Panics[0].Where, o.Panics[0].Val
	}
	return "", ""
}

// confirm replays a failing schedule five times; it must fail identically.
func confirm(scn *explore.Scenario, s explore.Sched, key string) bool {
	for i := 0; i < 5; i++ {
		o := explore.RunOnce(scn, s)
		if o.OutcomeKey() != key {
			return false
		}
	}
	return true
}

func runSched(c *check.Ctx, scn *schedScenario, prop string, events []string, oracle func(root *explore.Obs) func(o *explore.Obs, s explore.Sched) (string, string)) {
	D := scn.DQuick
	if c.Thorough() {
		D = scn.DThorough
	}
	base := scn.Scenario
	root := explore.RunOnce(&base, explore.Sched{EventStep: -1})
	if sym, det := baseOracle(root); sym != "" {
		c.Fail(check.Failure{Prop: prop, Kind: "sched", Symptom: sym, Detail: "default schedule: " + det, Scenario: &base, Sched: &explore.Sched{EventStep: -1}})
		return
	}
	// the schedules are compared with the default one; the default one is compared with
	// the reference engine (a defect that shows in every schedule alike would otherwise pass)
	if sym, det := rootVsRef(&base, root); sym != "" {
		if c.Shard == 0 {
			c.Fail(check.Failure{Prop: prop, Kind: "sched-root", Symptom: sym, Detail: det, Scenario: &base, Sched: &explore.Sched{EventStep: -1}})
		}
		return
	}
	if c.Shard == 0 {
		c.Sample(map[string]any{"scenario": base.Name, "query": base.Case.Q, "default_schedule_steps": len(root.Run.Trace), "threads": root.Run.Threads, "bound": D})
	}
	evs := events
	if len(evs) == 0 {
		evs = []string{""}
	}
	for _, ev := range evs {
		scv := base
		scv.Event = ev
		e := &explore.Explorer{Sc: &scv, D: D, Deadline: c.Expired, MaxFail: 10}
		e.Check = oracle(root)
		var err error
		if ev == "" {
			e.Shard, e.NShards = c.Shard, c.NShards
			_, err = e.Explore(-1)
		} else {
			maxLen := len(root.Run.Trace)
			for k := 0; k <= maxLen+1 && err == nil; k++ {
				if k%c.NShards != c.Shard {
					continue
				}
				_, err = e.Explore(k)
				if e.Stats.MaxLen > maxLen {
					maxLen = e.Stats.MaxLen
				}
				e.Stats.EventsTried++
				if c.Expired() {
					break
				}
			}
		}
		st := e.Stats
		c.Rep.Evaluations += st.Executions
		c.Rep.States += st.Executions
		c.Rep.Transitions += st.Steps
		c.Rep.Traces += st.Executions
		c.Rep.Nontrivial += st.NonDefault
		c.Rep.Extra["event_positions"] += int64(st.EventsTried)
		c.Rep.Extra["execs["+base.Name+"|"+ev+"]"] += st.Executions
		for k, v := range st.Outcomes {
			c.Rep.Outcomes[base.Name+"|"+ev+"|"+k] += v
		}
		key := fmt.Sprintf("D[%s|%s]", base.Name, ev)
		c.Rep.Bounds[key] = D
		if st.Aborted != "" {
			c.Rep.Exhaustive = false
			c.Note("%s %s: %s", base.Name, ev, st.Aborted)
		}
		if errors.Is(err, explore.ErrNondeterminism) {
			c.Rep.HarnessErr = err.Error()
			return
		}
		for _, f := range e.Failures {
			o := explore.RunOnce(&scv, f.Sched)
			if !confirm(&scv, f.Sched, o.OutcomeKey()) {
				c.Rep.HarnessErr = fmt.Sprintf("failure not reproducible: %s %+v", scv.Name, f.Sched)
				return
			}
			sch := f.Sched
			cp := scv
			c.Fail(check.Failure{Prop: prop, Kind: "sched", Symptom: f.Symptom, Detail: f.Detail, Scenario: &cp, Sched: &sch})
		}
		// failures beyond the kept ones still count
		for sym, n := range e.FailCnt {
			kept := int64(0)
			for _, f := range e.Failures {
				if f.Symptom == sym {
					kept++
				}
			}
			if n > kept {
				c.Rep.Extra["more_failures:"+sym] += n - kept
			}
		}
	}
}

// rootVsRef compares the result of the default schedule (of both queries, for a pair) with
// the reference engine. Scenarios with injected faults or a cancelled context have no
// reference result.
func rootVsRef(sc *explore.Scenario, root *explore.Obs) (string, string) {
	if sc.PreCancel || len(sc.DistFaults) > 0 {
		return "", ""
	}
	if len(sc.Case.Faults) == 0 && root.Res != nil {
		ref := core.RunRef(&sc.Case, storeFor(&sc.Case))
		if sym, det := core.Diff(ref, root.Res, false); sym != "" {
			return "root:" + sym, "the default schedule differs from the reference engine: " + det
		}
	}
	if sc.Two != nil && len(sc.Two.Faults) == 0 && root.Res2 != nil {
		ref := core.RunRef(sc.Two, storeFor(sc.Two))
		if sym, det := core.Diff(ref, root.Res2, false); sym != "" {
			return "root:" + sym, "the default schedule (second query) differs from the reference engine: " + det
		}
	}
	return "", ""
}

func sameAsRoot(root *explore.Obs) func(o *explore.Obs, s explore.Sched) (string, string) {
	return func(o *explore.Obs, s explore.Sched) (string, string) {
		if sym, det := baseOracle(o); sym != "" {
			return sym, det
		}
		if sym, det := core.Diff(root.Res, o.Res, false); sym != "" {
			return "sched:" + sym, det
		}
		for _, m := range o.Mon {
			if m.Clause == "K6" {
				return "contract:K6", m.Detail
			}
		}
		return "", ""
	}
}

func cancelOracle(root *explore.Obs) func(o *explore.Obs, s explore.Sched) (string, string) {
	return func(o *explore.Obs, s explore.Sched) (string, string) {
		if sym, det := baseOracle(o); sym != "" {
			return sym, det
		}
		if !o.CancelRan {
			// no obligation: the event was a no-op or came after Exec returned; the
			// result must then be the complete one
			if sym, det := core.Diff(root.Res, o.Res, false); sym != "" {
				return "sched:" + sym, det
			}
			return "", ""
		}
		if o.ExecErr != nil {
			if errors.Is(o.ExecErr, context.Canceled) {
				return "", ""
			}
			return "cancel:wrong-error", o.ExecErr.Error()
		}
		if sym, det := core.Diff(root.Res, o.Res, false); sym != "" {
			return "partial-result", sym + ": " + det
		}
		return "", ""
	}
}

func init() {
	check.Register("C11/sched", func(c *check.Ctx) {
		for _, s := range catalogue() {
			s := s
			runSched(c, &s, "C11", nil, sameAsRoot)
			if c.Expired() || c.Rep.HarnessErr != "" {
				return
			}
		}
		// with a storage failure the outcome (an error) must not depend on the schedule either
		runFaultSched(c, "C11", "error", nil, sameAsRoot)
	})
	check.Register("C18/sched", func(c *check.Ctx) {
		// the operator monitor under every bounded interleaving of the drivers
		for _, s := range catalogue() {
			s := s
			runSched(c, &s, "C18", nil, func(root *explore.Obs) func(o *explore.Obs, sd explore.Sched) (string, string) {
				return func(o *explore.Obs, sd explore.Sched) (string, string) {
					if sym, det := baseOracle(o); sym != "" {
						return sym, det
					}
					return monSymptom(o.Mon)
				}
			})
			if c.Expired() || c.Rep.HarnessErr != "" {
				return
			}
		}
	})
	check.Register("C14/sched", func(c *check.Ctx) {
		allEvents := map[string]bool{"S1": true, "S4a": true, "S6a": true}
		for _, s := range catalogue() {
			s := s
			id := s.Name[:strings.Index(s.Name, ":")]
			if id == "S9a" || id == "S9b" || id == "S12" {
				continue // 31-step traces: covered by the 12-step variants below
			}
			if id == "S10" && !c.Thorough() {
				// the distributed plan has ~3x the threads: keep its 2-step window
				s.DQuick = 1
				runSched(c, &s, "C14", []string{"ctx-cancel"}, cancelOracle)
				// and over remote storages that fail every callback once cancelled
				sx := s
				sx.Name = s.Name + "/storectx"
				sx.StoreCtx = true
				runSched(c, &sx, "C14", []string{"ctx-cancel"}, cancelOracle)
				continue
			}
			s.DQuick, s.DThorough = 1, 2
			if id == "S13" || id == "S3" || id == "S10" {
				s.DThorough = 1
			}
			if s.Case.W.NSteps() < 12 && id != "S2" && id != "S11" {
				// the partial-result symptom needs an earlier batch to have been delivered
				s.Case.W = core.Range(10000, 30000, 12)
				s.Case.Data = gen.SchedData(14)
			}
			events := []string{"ctx-cancel"}
			if allEvents[id] {
				events = []string{"ctx-cancel", "query-cancel", "query-close"}
			}
			runSched(c, &s, "C14", events, cancelOracle)
			if c.Expired() || c.Rep.HarnessErr != "" {
				return
			}
			// the same over a storage that fails every callback with the context's error
			// once cancelled (both sides of a binary operator then fail while loading)
			if id == "S1" || id == "S4a" || id == "S6a" || id == "S6c" || id == "S8" || id == "S3" {
				sx := s
				sx.Name = s.Name + "/storectx"
				sx.StoreCtx = true
				if sx.Case.W.NSteps() > 2 && id != "S6a" {
					sx.Case.W = core.Range(10000, 30000, 2)
				}
				runSched(c, &sx, "C14", []string{"ctx-cancel"}, cancelOracle)
				if c.Expired() || c.Rep.HarnessErr != "" {
					return
				}
			}
		}
		// a context that is already cancelled when Exec starts
		for _, s := range catalogue()[:6] {
			s := s
			s.PreCancel = true
			s.DQuick, s.DThorough = 1, 2
			runSched(c, &s, "C14", nil, func(root *explore.Obs) func(o *explore.Obs, sd explore.Sched) (string, string) {
				return func(o *explore.Obs, sd explore.Sched) (string, string) {
					if sym, det := baseOracle(o); sym != "" {
						return sym, det
					}
					if o.ExecErr == nil || !errors.Is(o.ExecErr, context.Canceled) {
						return "precancel:not-canceled", fmt.Sprintf("err=%v result=%s", o.ExecErr, o.Res)
					}
					return "", ""
				}
			})
		}
	})
}

func init() {
	check.Replayers["sched-root"] = func(f *check.Failure) (string, string) {
		root := explore.RunOnce(f.Scenario, explore.Sched{EventStep: -1})
		fmt.Printf("scenario %s query %q, default schedule: %s\n", f.Scenario.Name, f.Scenario.Case.Q, root.Res)
		return rootVsRef(f.Scenario, root)
	}
	check.Replayers["sched"] = func(f *check.Failure) (string, string) {
		root := explore.RunOnce(&explore.Scenario{Name: f.Scenario.Name, Case: f.Scenario.Case, Two: f.Scenario.Two, PoolPoints: f.Scenario.PoolPoints, Delay: f.Scenario.Delay,
			YieldPoints: f.Scenario.YieldPoints, StoreYield: f.Scenario.StoreYield}, explore.Sched{EventStep: -1})
		o := explore.RunOnce(f.Scenario, *f.Sched)
		fmt.Printf("scenario %s query %q event %q schedule %+v\n", f.Scenario.Name, f.Scenario.Case.Q, f.Scenario.Event, *f.Sched)
		fmt.Printf("default schedule: %s\nthis schedule:    %s (err=%v) cancelRan=%v deadlock=%v blocked=%v panics=%d steps=%d\n", root.Res, o.Res, o.ExecErr, o.CancelRan, o.Run.Deadlock, o.Run.BlockedOps, len(o.Panics), len(o.Run.Trace))
		for _, p := range o.Panics {
			fmt.Printf("goroutine-top panic at %s: %s\n", p.Where, p.Val)
		}
		if os.Getenv("VERIF_TRACE") != "" {
			for i, s := range o.Run.Trace {
				fmt.Printf("  %3d t%-2d %-8s alt %d/%d\n", i, s.Tid, s.Kind, s.Chosen, s.NAlt)
			}
		}
		var orc func(o *explore.Obs, s explore.Sched) (string, string)
		if f.Scenario.Event != "" {
			orc = cancelOracle(root)
		} else {
			orc = sameAsRoot(root)
		}
		return orc(o, *f.Sched)
	}
}
