package checks

import (
	"fmt"
	"math"
	"sort"
	"strings"

	"github.com/prometheus/prometheus/promql/parser"

	"verif/harness/check"
	"verif/harness/core"
	"verif/harness/gen"
	"verif/harness/mstore"
)

type storeEntry struct {
	data []core.SeriesSpec // kept alive so that its address cannot be reused while cached
	st   *mstore.Store
}

var storeCache = map[string]storeEntry{}

// storeFor returns the model storage of a case's dataset, cached by the identity of
// the dataset slice.
func storeFor(cs *core.Case) *mstore.Store {
	key := fmt.Sprintf("%d/", len(cs.Data))
	if len(cs.Data) > 0 {
		key += fmt.Sprintf("%p", &cs.Data[0])
	}
	if e, ok := storeCache[key]; ok {
		return e.st
	}
	st, err := core.BuildStore(cs.Data)
	if err != nil {
		panic(err)
	}
	if len(storeCache) > 256 {
		storeCache = map[string]storeEntry{}
	}
	storeCache[key] = storeEntry{data: cs.Data, st: st}
	return st
}

// engineSymptom turns the universal oracles into a symptom.
func engineSymptom(o *core.Outcome) (string, string) {
	if len(o.Panics) > 0 {
		p := o.Panics[0]
		return "panic@" + p.Where, p.Val
	}
	if o.Hang {
		return "hang", "Exec did not return within the hang guard"
	}
	if o.Leaked > 0 {
		return "leak", fmt.Sprintf("%d engine goroutines alive after the grace period", o.Leaked)
	}
	return "", ""
}

// tieEqual: per-timestamp multisets of values agree (tie rule for topk/bottomk).
func tieEqual(a, b *core.Result) bool {
	if a.Failed() || b.Failed() || a.Type != b.Type {
		return false
	}
	collect := func(r *core.Result) map[int64][]float64 {
		m := map[int64][]float64{}
		for _, s := range r.Series {
			for _, p := range s.Points {
				m[p.T] = append(m[p.T], float64(p.V))
			}
		}
		for _, v := range m {
			sort.Slice(v, func(i, j int) bool {
				if math.IsNaN(v[i]) {
					return !math.IsNaN(v[j])
				}
				if math.IsNaN(v[j]) {
					return false
				}
				return v[i] < v[j]
			})
		}
		return m
	}
	x, y := collect(a), collect(b)
	if len(x) != len(y) {
		return false
	}
	for t, xs := range x {
		ys := y[t]
		if len(xs) != len(ys) {
			return false
		}
		for i := range xs {
			if !core.ValEq(xs[i], ys[i]) {
				return false
			}
		}
	}
	return true
}

// kOperandHasTie evaluates (with the reference engine) the operand of every
// topk/bottomk of the query and reports whether two of its series carry the same
// value at the same step.
func kOperandHasTie(cs *core.Case, st *mstore.Store) bool {
	expr, err := parser.ParseExpr(cs.Q)
	if err != nil {
		return false
	}
	tie := false
	parser.Inspect(expr, func(n parser.Node, _ []parser.Node) error {
		ag, ok := n.(*parser.AggregateExpr)
		if !ok || tie || (ag.Op != parser.TOPK && ag.Op != parser.BOTTOMK) {
			return nil
		}
		sub := *cs
		sub.Q = ag.Expr.String()
		r := core.RunRef(&sub, st)
		if r.Failed() {
			// the reference rejects the operand (a known finding): use the engine's own view
			r = core.RunEngine(&sub, st).Res
			if r.Failed() {
				// rejected by both (several series of one label set at a step): which of
				// them a topk above keeps is arbitrary
				tie = true
				return nil
			}
		}
		seen := map[int64]map[uint64]bool{}
		for _, s := range r.Series {
			for _, p := range s.Points {
				m := seen[p.T]
				if m == nil {
					m = map[uint64]bool{}
					seen[p.T] = m
				}
				b := math.Float64bits(float64(p.V))
				if float64(p.V) != float64(p.V) {
					b = 0x7ff8000000000001
				}
				if m[b] {
					tie = true
				}
				m[b] = true
			}
		}
		return nil
	})
	return tie
}

type diffResult struct {
	ran        bool // engine evaluated natively
	nontrivial bool
	symptom    string
	detail     string
}

func hasK(q string) bool { return strings.Contains(q, "topk") || strings.Contains(q, "bottomk") }

// diffOnce runs one case on both engines.
func diffOnce(cs *core.Case, c *check.Ctx) diffResult {
	st := storeFor(cs)
	out := core.RunEngine(cs, st)
	if out.Res.CreateErr != "" && (out.ErrIs["unsupported"] || out.ErrIs["notimplemented"]) {
		return diffResult{}
	}
	r := diffResult{ran: true}
	if sym, det := engineSymptom(out); sym != "" {
		r.symptom, r.detail = sym, det
		return r
	}
	ref := core.RunRef(cs, st)
	r.nontrivial = !ref.Failed() && ref.NPoints() > 0
	sym, det := core.Diff(ref, out.Res, false)
	if sym != "" && hasK(cs.Q) {
		if !strings.HasPrefix(sym, "err:") && tieEqual(ref, out.Res) {
			if c != nil {
				c.Rep.Extra["tie_rule_accepted"]++
			}
			sym, det = "", ""
		} else if kOperandHasTie(cs, st) {
			// a topk/bottomk below the root whose operand really has two equal
			// values at some step: the kept series is not a function of the inputs
			if c != nil {
				c.Rep.Extra["tie_rule_nested_accepted"]++
			}
			sym, det = "", ""
		}
	}
	r.symptom, r.detail = sym, det
	return r
}

// diffCase evaluates one state of a differential check: run, compare, confirm, record.
func diffCase(c *check.Ctx, cs *core.Case, prop string) {
	if !c.Progress(cs) {
		return
	}
	r := diffOnce(cs, c)
	if !r.ran {
		c.Rep.Outcomes["unsupported"]++
		return
	}
	c.Rep.Evaluations++
	c.Rep.Traces++
	if r.nontrivial {
		c.Rep.Nontrivial++
	}
	if r.symptom == "" {
		c.Rep.Outcomes["agree"]++
		return
	}
	// confirm: the failure must show again (twice); a hang is re-checked with a
	// three times longer guard
	again := 0
	if r.symptom == "hang" {
		// once more with twice the guard
		old := core.HangGuard
		core.HangGuard = 2 * old
		if r2 := diffOnce(cs, nil); r2.symptom == "hang" {
			again = 2
		}
		core.HangGuard = old
	} else {
		for i := 0; i < 4 && again < 2; i++ {
			if r2 := diffOnce(cs, nil); r2.symptom != "" {
				again++
			}
		}
	}
	if again < 2 {
		c.Rep.Extra["unreproduced_failures"]++
		c.Note("failure not reproduced (symptom %s) for %s", r.symptom, cs.Q)
		return
	}
	c.Rep.Outcomes["diff:"+r.symptom]++
	cp := *cs
	if strings.Contains(r.symptom, "k-overflow") && kOperandNeverPresent(cs, storeFor(cs)) {
		// finding F05 is about operands that have no sample at any step of the window
		cp.Note += " feat:k-operand-never-present"
	}
	c.Fail(check.Failure{Prop: prop, Kind: "enum", Symptom: r.symptom, Detail: r.detail, Case: &cp})
}

// kOperandNeverPresent: the operand of some topk/bottomk of the query has no sample at any
// step of the window (evaluated by the reference engine).
func kOperandNeverPresent(cs *core.Case, st *mstore.Store) bool {
	expr, err := parser.ParseExpr(cs.Q)
	if err != nil {
		return false
	}
	never := false
	parser.Inspect(expr, func(n parser.Node, _ []parser.Node) error {
		ag, ok := n.(*parser.AggregateExpr)
		if !ok || never || (ag.Op != parser.TOPK && ag.Op != parser.BOTTOMK) {
			return nil
		}
		sub := *cs
		sub.Q = ag.Expr.String()
		r := core.RunRef(&sub, st)
		if !r.Failed() && r.NPoints() == 0 {
			never = true
		}
		return nil
	})
	return never
}

func init() {
	check.Replayers["enum"] = func(f *check.Failure) (string, string) {
		r := diffOnce(f.Case, nil)
		if !r.ran {
			return "", "not evaluated natively"
		}
		st := storeFor(f.Case)
		fmt.Printf("query: %s\nengine:    %s\nreference: %s\n", f.Case.Q, core.RunEngine(f.Case, st).Res, core.RunRef(f.Case, st))
		return r.symptom, r.detail
	}
}

// ---- windows and datasets shared by the differential checks

func windowsQuick() []core.Window {
	return []core.Window{
		core.Instant(45000), core.Instant(1000000),
		core.Range(10000, 30000, 11), core.Range(0, 45000, 21),
		// times that are not whole milliseconds: a start with a larger fraction than the end,
		// a step of 33.333333333 s
		core.Range(600000, 60000, 6).SubMs(900000, 100000, 0), core.Range(10000, 33333, 7).SubMs(0, 0, 333333),
	}
}

func windowsAll() []core.Window {
	ws := []core.Window{core.Instant(0), core.Instant(10000), core.Instant(45000), core.Instant(1000000)}
	for _, n := range []int{1, 2, 9, 10, 11, 20, 21, 35} {
		ws = append(ws, core.Range(10000, 30000, n), core.Range(0, 45000, n))
	}
	ws = append(ws, core.Range(10000, 7000, 35), core.Range(0, 7000, 11))
	ws = append(ws, core.Range(600000, 60000, 6).SubMs(900000, 100000, 0), core.Range(10000, 33333, 7).SubMs(0, 0, 333333), core.Range(0, 30000, 10).SubMs(999999, 1, 0),
		core.Instant(45000).SubMs(500000, 0, 0))
	return ws
}

func windowsThorough() []core.Window {
	ws := windowsAll()
	for n := 1; n <= 35; n++ {
		ws = append(ws, core.Range(10000, 30000, n))
	}
	for _, n := range []int{100, 101, 121} {
		ws = append(ws, core.Range(0, 7000, n))
	}
	return ws
}

var dsCache = map[string][]core.SeriesSpec{}

func dataset(name string) []core.SeriesSpec {
	if d, ok := dsCache[name]; ok {
		return d
	}
	if name == "C06" {
		dsCache[name] = c06Data()
		return dsCache[name]
	}
	d := gen.Dataset(name)
	dsCache[name] = d
	return d
}

// ---- C01

func init() {
	check.Register("C01/enum", func(c *check.Ctx) {
		f := gen.FullDepth1()
		depth := 2
		if c.Thorough() {
			depth = 3
		}
		k := gen.KDepth(depth)
		c.Rep.Transitions += f.Transitions + k.Transitions
		c.Rep.Bounds["full_alphabet_depth1_queries"] = len(f.List)
		c.Rep.Bounds["composition_alphabet_depth"] = depth
		c.Rep.Bounds["composition_queries"] = len(k.List)
		type plan struct {
			qs   []string
			ds   []string
			ws   []core.Window
			opts []core.Opts
		}
		lb := []core.Opts{{Optimizers: "none"}}
		lbAll := []core.Opts{{Optimizers: "none"}, {Optimizers: "none", LookbackMs: 60000}, {Optimizers: "none", QLookbackMs: 45000}, {LookbackMs: 20000}}
		// core counts: a single core (one shard everywhere), an odd count, many
		cores := []core.Opts{{Optimizers: "none", Procs: 1}, {Optimizers: "none", Procs: 3}, {Optimizers: "none", Procs: 16}}
		var plans []plan
		if c.Thorough() {
			plans = []plan{
				{f.List, []string{"D1", "D2", "D3", "D4", "D5"}, windowsThorough(), lbAll},
				{f.List, []string{"D1", "D2"}, windowsAll(), cores},
				{k.List, []string{"D1", "D2", "D3", "D4"}, windowsAll(), lb},
			}
		} else {
			plans = []plan{
				{f.List, []string{"D1", "D2", "D3", "D4"}, windowsAll(), lb},
				{f.List, []string{"D5"}, windowsQuick(), lb},
				{f.List, []string{"D2"}, windowsQuick(), lbAll[1:]},
				{f.List, []string{"D1"}, windowsQuick(), cores},
				{k.List, []string{"D1", "D2"}, windowsQuick(), lb},
			}
		}
		// histogram_quantile over the bucket sets of C06 (equal bounds spelled differently,
		// missing +Inf, a single bucket, non-numeric le)
		hq := []string{`histogram_quantile(0.5, h_bucket)`, `histogram_quantile(0.9, h_bucket{l="3"})`, `histogram_quantile(0.5, rate(h_bucket[1m]))`, `histogram_quantile(0.99, sum by (le) (h_bucket))`,
			`histogram_quantile(0.25, h_bucket{l=~"1|2"})`, `histogram_quantile(1, h_bucket)`, `histogram_quantile(0, h_bucket{l="3"})`}
		plans = append(plans, plan{hq, []string{"C06"}, windowsQuick(), lb})
		c.Rep.Bounds["gomaxprocs"] = "4 everywhere; 1, 3, 16 over the full alphabet at depth 1"
		c.Rep.Bounds["datasets"] = "D1 regular, D2 irregular/gap/stale/late, D3 NaN/Inf/negative/resets/name-only, D4 empty, D5 label names sorting before __name__ / non-ASCII values"
		for _, p := range plans {
			for _, q := range p.qs {
				for _, d := range p.ds {
					data := dataset(d)
					for _, w := range p.ws {
						for _, o := range p.opts {
							c.Rep.Transitions++
							if !c.Mine() {
								continue
							}
							if c.Expired() {
								return
							}
							cs := &core.Case{Q: q, Data: data, W: w, O: o, Note: d}
							c.Rep.States++
							if c.Shard == 0 {
								c.Sample(map[string]any{"q": q, "dataset": d, "window": w, "opts": o})
							}
							diffCase(c, cs, "C01")
						}
					}
				}
			}
		}
	})
}
