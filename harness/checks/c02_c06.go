package checks

import (
	"fmt"
	"math"
	"strings"

	"github.com/prometheus/prometheus/model/labels"
	"github.com/prometheus/prometheus/promql/parser"

	"verif/harness/check"
	"verif/harness/core"
	"verif/harness/gen"
)

// runCases is the common loop of the differential checks: shard, deadline, sample.
func runCases(c *check.Ctx, prop string, each func(emit func(cs *core.Case))) {
	stop := false
	each(func(cs *core.Case) {
		if stop {
			return
		}
		c.Rep.Transitions++
		if !c.Mine() {
			return
		}
		if c.Expired() {
			stop = true
			return
		}
		c.Rep.States++
		if c.Shard == 0 {
			c.Sample(map[string]any{"q": cs.Q, "window": cs.W, "opts": cs.O, "series": len(cs.Data), "note": cs.Note})
		}
		diffCase(c, cs, prop)
	})
}

func pts(ps ...core.Pt) []core.Pt  { return ps }
func p(t int64, v float64) core.Pt { return core.Pt{T: t, V: core.F(v)} }

// ---------------------------------------------------------------------------------
// C02: instant-vector selection

func c02Contexts() []string {
	return []string{`a`, `a offset 30s`, `a offset -30s`, `a @ 600.000`, `a @ 0.000`, `a @ start()`, `a @ end()`, `-a`, `a + 0`, `a @ 600.000 offset 45s`,
		// two selectors with the same matchers in one query share pooled selects
		`a @ end() + a`, `a + a @ end()`, `a @ start() + a`, `a offset 30s + a`, `a @ 600.000 + a`,
		// the same selection when the query is answered by the fallback path (the
		// per-query lookback has to reach that engine too)
		`round(a)`, `sort(a offset 30s)`,
		// a pinned / offset selector that the default optimizers turn into a filter over
		// the select of the other operand
		`a{l="0"} @ 600.000 + a`, `a + a{l="0"} @ end()`, `a{l="0"} offset 30s + a`, `a{l="0"} @ 600.000 offset 45s + a`}
}

func init() {
	check.Register("C02/enum", func(c *check.Ctx) {
		const step = int64(30000)
		lookbacks := []core.Opts{{Optimizers: "none", LookbackMs: 20000}, {Optimizers: "none", LookbackMs: 60000}, {Optimizers: "none"},
			{Optimizers: "none", QLookbackMs: 45000}, {Optimizers: "none", LookbackMs: 60000, QLookbackMs: 45000}}
		nsteps := []int{1, 2, 11, 21}
		maxSamples := 3
		if c.Thorough() {
			nsteps = []int{1, 2, 9, 10, 11, 20, 21, 35}
		}
		c.Rep.Bounds["layout_samples_max"] = maxSamples
		c.Rep.Bounds["lookbacks"] = "engine 20s/1m/5m x per-query unset/45s"
		// part A: boundary layouts around the step t* = 600 s
		tstar := int64(600000)
		runCases(c, "C02", func(emit func(*core.Case)) {
			for _, o := range lookbacks {
				L := o.LookbackMs
				if L == 0 {
					L = 300000
				}
				if o.QLookbackMs != 0 {
					L = o.QLookbackMs
				}
				instants := []int64{tstar - L - 1, tstar - L, tstar - L + 1, tstar - step, tstar - step + 1, tstar - 1, tstar, tstar + 1,
					tstar + step - L - 1, tstar + step - L, tstar - 30000 - L, tstar + 45000}
				vals := []float64{1, 2, core.Stale}
				var layouts [][]core.Pt
				var rec func(start int, cur []core.Pt)
				rec = func(start int, cur []core.Pt) {
					if len(cur) > 0 {
						layouts = append(layouts, append([]core.Pt(nil), cur...))
					}
					if len(cur) == maxSamples {
						return
					}
					for i := start; i < len(instants); i++ {
						dup := false
						for _, x := range cur {
							if x.T >= instants[i] {
								dup = true
							}
						}
						if dup {
							continue
						}
						for _, v := range vals {
							rec(i+1, append(cur, p(instants[i], v)))
						}
						if len(cur) <= 1 {
							// an ordinary NaN (not the staleness marker) as the newest sample
							layouts = append(layouts, append(append([]core.Pt(nil), cur...), p(instants[i], math.NaN())))
						}
					}
				}
				// instants must be increasing for a valid series: sort first
				for i := range instants {
					for j := i + 1; j < len(instants); j++ {
						if instants[j] < instants[i] {
							instants[i], instants[j] = instants[j], instants[i]
						}
					}
				}
				rec(0, nil)
				for _, lay := range layouts {
					data := []core.SeriesSpec{{L: `a{l="0"}`, S: lay}}
					for _, q := range c02Contexts() {
						oq := o
						oq.Fallback = strings.HasPrefix(q, "round(") || strings.HasPrefix(q, "sort(")
						if strings.Contains(q, `a{l="0"}`) {
							oq.Optimizers = ""
						}
						for _, n := range nsteps {
							// the grid contains t*: start = t* - k*step
							k := n / 2
							w := core.Range(tstar-int64(k)*step, step, n)
							emit(&core.Case{Q: q, Data: data, W: w, O: oq, Note: "boundary-layout"})
						}
						emit(&core.Case{Q: q, Data: data, W: core.Instant(tstar), O: oq, Note: "boundary-layout"})
					}
				}
			}
		})
		// part B: sharding product: n series x shards, distinct values
		maxN := 12
		procs := []int{1, 2, 3, 4, 6, 8}
		if c.Thorough() {
			maxN = 40
			procs = []int{1, 2, 3, 4, 5, 6, 7, 8, 10, 12, 14, 16}
		}
		c.Rep.Bounds["series_counts"] = fmt.Sprintf("0..%d", maxN)
		c.Rep.Bounds["gomaxprocs"] = procs
		runCases(c, "C02", func(emit func(*core.Case)) {
			for n := 0; n <= maxN; n++ {
				data := gen.NSeries(n, 14)
				for _, pr := range procs {
					for _, q := range []string{`a`, `a offset 30s`, `-a`, `a{m!="1"}`, `a @ end() + a`, `a + a offset 30s`} {
						for _, ns := range []int{1, 11} {
							emit(&core.Case{Q: q, Data: data, W: core.Range(10000, 30000, ns), O: core.Opts{Optimizers: "none", Procs: pr}, Note: fmt.Sprintf("shard-product n=%d", n)})
						}
					}
				}
			}
		})
	})
}

// ---------------------------------------------------------------------------------
// C03: range functions

func rangeFuncs() []string {
	var out []string
	for _, f := range gen.NativeFuncs() {
		for _, q := range gen.CallsOver("a", true) {
			if strings.HasPrefix(q, f+"(") && strings.Contains(q, "[15s]") {
				out = append(out, f)
				break
			}
		}
	}
	return out
}

func c03Data(spacing string) []core.SeriesSpec {
	switch spacing {
	case "10s":
		a := core.SeriesSpec{L: `a{l="0"}`}
		vals := []float64{1, 2, 4, 7, 3, 5, 9, 9, 12, 2, 2, 6}
		for i := 0; i < 90; i++ {
			a.S = append(a.S, p(int64(i)*10000, vals[i%len(vals)]+float64(i/len(vals))))
		}
		return []core.SeriesSpec{a, gen.Regular(`a{l="1"}`, 0, 10000, 90, -3, 1.5)}
	case "30s":
		st := gen.Regular(`a{l="2"}`, 0, 30000, 40, 7, 3)
		for _, i := range []int{4, 5, 11, 20, 21, 22, 30} {
			st.S[i].V = core.F(core.Stale) // staleness markers exactly on steps
		}
		return []core.SeriesSpec{gen.Regular(`a{l="0"}`, 0, 30000, 40, 1, 1), gen.Regular(`a{l="1"}`, 15000, 30000, 40, 100, -2), st}
	case "irregular":
		a := core.SeriesSpec{L: `a{l="0"}`}
		t := int64(0)
		vals := []float64{5, 6, 8, 1, 2, math.Inf(1), 3, -4, math.NaN(), 7, 7, 7, 0, 2}
		for i := 0; i < 60; i++ {
			t += []int64{7000, 13000, 30000, 1000, 45000, 15000, 60000}[i%7]
			v := vals[i%len(vals)]
			if i%17 == 9 {
				v = core.Stale
			}
			a.S = append(a.S, p(t, v))
		}
		b := core.SeriesSpec{L: `a{l="1"}`, S: pts(p(100000, 1), p(160000, 3))}
		single := core.SeriesSpec{L: `a{l="2"}`, S: pts(p(300000, 42))}
		// infinities of both signs (and NaN) next to each other
		ext := core.SeriesSpec{L: `a{l="3"}`}
		// (also runs of two and three ordinary NaN samples)
		ev := []float64{1, math.Inf(1), math.Inf(-1), 2, math.Inf(-1), math.Inf(-1), 3, math.NaN(), math.Inf(1), 4, math.Inf(1), math.Inf(1), 1e300, -1e300, 5,
			math.NaN(), math.NaN(), 6, math.NaN(), math.NaN(), math.NaN(), 7}
		for i := 0; i < 45; i++ {
			ext.S = append(ext.S, p(int64(i)*20000, ev[i%len(ev)]))
		}
		return []core.SeriesSpec{a, b, single, ext}
	}
	return nil
}

func init() {
	check.Register("C03/enum", func(c *check.Ctx) {
		funcs := rangeFuncs()
		// 7m over the 10 s spacing is a window of 42 samples (beyond the initial capacity of
		// the per-series window buffers)
		ranges := []string{"15s", "30s", "45s", "1m", "90s", "100ms", "2m30s", "1s500ms", "2500ms", "7m"}
		steps := []int64{15000, 30000, 45000, 120000}
		spacings := []string{"10s", "30s", "irregular"}
		sels := []string{`a`, `a offset 30s`, `a @ 300.000`, `a offset -45s`, `a @ end()`}
		procs := []int{1, 2, 4}
		ns := []int{1, 2, 11, 21}
		if c.Thorough() {
			ranges = []string{"15s", "30s", "45s", "1m", "90s", "100ms", "2m30s", "1s", "7m", "1500ms", "11m"}
			sels = append(sels, `a @ start()`, `a @ 300.000 offset 1m`)
			procs = []int{1, 2, 3, 4, 6}
			ns = []int{1, 2, 9, 10, 11, 20, 21, 35}
		}
		c.Rep.Bounds["functions"] = funcs
		c.Rep.Bounds["ranges"] = ranges
		c.Rep.Bounds["steps_ms"] = steps
		c.Rep.Bounds["spacings"] = spacings
		runCases(c, "C03", func(emit func(*core.Case)) {
			for _, sp := range spacings {
				data := c03Data(sp)
				for _, f := range funcs {
					for _, r := range ranges {
						for _, sel := range sels {
							q := gen.Canon(fmt.Sprintf("%s(%s)", f, matrixSel(sel, r)))
							if q == "" {
								continue
							}
							for _, st := range steps {
								for _, n := range ns {
									for _, pr := range procs {
										emit(&core.Case{Q: q, Data: data, W: core.Range(60000, st, n), O: core.Opts{Optimizers: "none", Procs: pr}, Note: "spacing " + sp})
									}
								}
							}
							emit(&core.Case{Q: q, Data: data, W: core.Instant(300000), O: core.Opts{Optimizers: "none"}, Note: "spacing " + sp})
						}
					}
				}
			}
		})
		// window-edge layouts: samples exactly on either edge, 0/1/2 samples in the window
		runCases(c, "C03", func(emit func(*core.Case)) {
			t := int64(600000)
			r := int64(60000)
			instants := []int64{t - r - 1, t - r, t - r + 1, t - 30000, t - 1, t, t + 1}
			for mask := 1; mask < 1<<len(instants); mask++ {
				var base []core.Pt
				v := 1.0
				for i, ts := range instants {
					if mask&(1<<i) != 0 {
						base = append(base, p(ts, v))
						v += 2
					}
				}
				// none, or exactly one, of the samples is a staleness marker
				for stale := -1; stale < len(base); stale++ {
					lay := append([]core.Pt(nil), base...)
					if stale >= 0 {
						lay[stale].V = core.F(core.Stale)
					}
					data := []core.SeriesSpec{{L: `a{l="0"}`, S: lay}}
					for _, f := range funcs {
						q := fmt.Sprintf("%s(a[1m])", f)
						emit(&core.Case{Q: q, Data: data, W: core.Instant(t), O: core.Opts{Optimizers: "none"}, Note: "edge-layout"})
						emit(&core.Case{Q: q, Data: data, W: core.Range(t-60000, 30000, 4), O: core.Opts{Optimizers: "none"}, Note: "edge-layout"})
					}
				}
			}
		})
	})
}

func matrixSel(sel, r string) string {
	// a offset 30s -> a[r] offset 30s
	parts := strings.SplitN(sel, " ", 2)
	if len(parts) == 1 {
		return sel + "[" + r + "]"
	}
	return parts[0] + "[" + r + "] " + parts[1]
}

// ---------------------------------------------------------------------------------
// C04: aggregations

func init() {
	check.Register("C04/enum", func(c *check.Ctx) {
		ops := append([]string(nil), gen.SimpleAgg...)
		// occupancy patterns: 3 series x 3 steps, a sample present or not
		labelSets := []string{`a{l="0",m="0"}`, `a{l="0",m="1"}`, `a{l="1"}`}
		valsOf := [][]float64{{1, 4, 2}, {3, 0.5, 7}, {-2, 6, 5}}
		groupings := gen.Groupings
		kparams := []string{"1", "2", "0", "5", "1.5", `scalar(b{l="0"})`}
		qparams := []string{"0.5", "0", "1", "-1", "2"}
		if c.Thorough() {
			kparams = gen.KParamsF
			qparams = gen.QParamsF
		}
		c.Rep.Bounds["occupancy_patterns"] = 512
		c.Rep.Bounds["groupings"] = groupings
		runCases(c, "C04", func(emit func(*core.Case)) {
			for mask := 0; mask < 512; mask++ {
				var data []core.SeriesSpec
				for s := 0; s < 3; s++ {
					sp := core.SeriesSpec{L: labelSets[s]}
					for st := 0; st < 3; st++ {
						if mask&(1<<(s*3+st)) != 0 {
							sp.S = append(sp.S, p(int64(st)*30000, valsOf[s][st]))
						}
					}
					if len(sp.S) > 0 {
						data = append(data, sp)
					}
				}
				data = append(data, gen.Regular(`b{l="0"}`, 0, 30000, 3, 1, 1))
				// lookback shorter than the step so that presence follows the pattern
				o := core.Opts{Optimizers: "none", LookbackMs: 20000}
				w := core.Range(0, 30000, 3)
				gs := groupings
				for _, g := range gs {
					for _, op := range ops {
						emit(&core.Case{Q: fmt.Sprintf("%s %s (a)", op, g), Data: data, W: w, O: o, Note: fmt.Sprintf("occupancy %03x", mask)})
					}
					for _, kp := range kparams {
						emit(&core.Case{Q: fmt.Sprintf("topk %s (%s, a)", g, kp), Data: data, W: w, O: o, Note: fmt.Sprintf("occupancy %03x", mask)})
						emit(&core.Case{Q: fmt.Sprintf("bottomk %s (%s, a)", g, kp), Data: data, W: w, O: o, Note: fmt.Sprintf("occupancy %03x", mask)})
					}
					if mask%8 == 7 || c.Thorough() {
						for _, qp := range qparams {
							emit(&core.Case{Q: fmt.Sprintf("quantile %s (%s, a)", g, qp), Data: data, W: w, O: o, Note: fmt.Sprintf("occupancy %03x", mask)})
						}
					}
				}
			}
		})
		// k-aggregations over a group with a NaN member: every arrangement of the values
		// over the series (which member reaches the heap when), every k up to the group size
		runCases(c, "C04", func(emit func(*core.Case)) {
			for _, vals := range [][]float64{{5, math.NaN(), 1, 2}, {-1, math.NaN(), -5, 2}, {4, math.NaN(), 1, 2, 3}, {math.Inf(1), math.NaN(), math.Inf(-1), 0},
				// squares that overflow
				{1e200, 2, -1e200, 7}} {
				for _, pm := range permutations(len(vals)) {
					var data []core.SeriesSpec
					for i, j := range pm {
						data = append(data, gen.Regular(fmt.Sprintf(`a{l="0",m="%d"}`, i), 0, 30000, 3, vals[j], 0))
					}
					for k := 1; k <= len(vals); k++ {
						for _, kop := range []string{"topk", "bottomk"} {
							for _, pr := range []int{2, 8} {
								emit(&core.Case{Q: fmt.Sprintf("%s(%d, a)", kop, k), Data: data, W: core.Range(0, 30000, 3), O: core.Opts{Optimizers: "none", Procs: pr}, Note: "NaN arrangement"})
							}
						}
					}
					// the order-sensitive reductions over the same arrangements
					for _, q := range []string{`quantile(0.5, a)`, `quantile(0.9, a)`, `quantile(0, a)`, `quantile(1, a)`, `quantile by (l) (0.25, a)`, `min(a)`, `max(a)`, `min by (l) (a)`, `max by (l) (a)`,
						`sum(a)`, `avg(a)`, `avg by (l) (a)`, `stddev(a)`, `stdvar by (l) (a)`, `count(a)`, `group(a)`} {
						if vals[0] == 1e200 && (strings.HasPrefix(q, "sum") || strings.HasPrefix(q, "avg")) {
							// 1e200 + 2 - 1e200 + 7 depends on the order of the additions in any
							// engine: ill-conditioned sums are not part of the value alphabet
							continue
						}
						for _, pr := range []int{2, 8} {
							emit(&core.Case{Q: q, Data: data, W: core.Range(0, 30000, 3), O: core.Opts{Optimizers: "none", Procs: pr}, Note: "NaN arrangement"})
						}
					}
				}
			}
		})
		// batch-boundary patterns, NaN/Inf members, per-step parameters, nesting
		runCases(c, "C04", func(emit func(*core.Case)) {
			for _, ds := range []string{"D1", "D2", "D3"} {
				data := dataset(ds)
				for _, w := range []core.Window{core.Range(10000, 30000, 12), core.Range(0, 45000, 21), core.Instant(45000)} {
					o := core.Opts{Optimizers: "none"}
					for _, g := range gen.Groupings {
						for _, op := range ops {
							emit(&core.Case{Q: fmt.Sprintf("%s %s (a)", op, g), Data: data, W: w, O: o, Note: ds})
							if c.Thorough() || g == "by (l)" || g == "" {
								for _, op2 := range []string{"sum", "max", "count"} {
									emit(&core.Case{Q: fmt.Sprintf("%s(%s %s (a))", op2, op, g), Data: data, W: w, O: o, Note: ds + " nested"})
									emit(&core.Case{Q: fmt.Sprintf("%s %s (%s by (l, m) (a))", op, g, op2), Data: data, W: w, O: o, Note: ds + " nested"})
								}
							}
						}
						for _, kp := range gen.KParamsF {
							emit(&core.Case{Q: fmt.Sprintf("topk %s (%s, a)", g, kp), Data: data, W: w, O: o, Note: ds})
							emit(&core.Case{Q: fmt.Sprintf("bottomk %s (%s, a)", g, kp), Data: data, W: w, O: o, Note: ds})
						}
						for _, qp := range gen.QParamsF {
							emit(&core.Case{Q: fmt.Sprintf("quantile %s (%s, a)", g, qp), Data: data, W: w, O: o, Note: ds})
						}
					}
					// k-aggregations with a per-step parameter that crosses 1 (and 0) inside a
					// batch, nested under every operator that pairs step vectors by position
					for _, kp := range []string{`scalar(b{l="0"}) - 6`, `time() / 30 - 3`, `2 - time() / 100`, `scalar(b{l="0"}) - 5.5`} {
						for _, kop := range []string{"topk", "bottomk"} {
							for _, g := range []string{"", "by (l)"} {
								inner := fmt.Sprintf("%s %s (%s, a)", kop, g, kp)
								for _, outer := range []string{"%s + a", "a + %s", "%s > bool a", "quantile(scalar(b{l=\"0\"}) / 10, %s)", "topk(2, %s)", "bottomk(scalar(b{l=\"0\"}) - 4, %s)",
									"clamp_min(%s, scalar(b{l=\"0\"}))", "sum by (l) (%s)", "count(%s)", "-%s", "%s + on (l) group_left b", "scalar(%s)", "%s * time()"} {
									emit(&core.Case{Q: fmt.Sprintf(outer, inner), Data: data, W: w, O: o, Note: ds + " nested per-step k"})
								}
							}
						}
					}
				}
			}
		})
	})
}

// ---------------------------------------------------------------------------------
// C05: binary operators

// labelConfigs enumerates all configurations of <= maxN series per side over l,m in {0,1,absent}.
func labelConfigs(metric string, maxN int) [][]string {
	var universe []string
	for _, l := range []string{"", "0", "1"} {
		for _, m := range []string{"", "0", "1"} {
			s := metric + "{"
			var parts []string
			if l != "" {
				parts = append(parts, `l="`+l+`"`)
			}
			if m != "" {
				parts = append(parts, `m="`+m+`"`)
			}
			s += strings.Join(parts, ",") + "}"
			universe = append(universe, s)
		}
	}
	var out [][]string
	var rec func(start int, cur []string)
	rec = func(start int, cur []string) {
		if len(cur) > 0 {
			out = append(out, append([]string(nil), cur...))
		}
		if len(cur) == maxN {
			return
		}
		for i := start; i < len(universe); i++ {
			rec(i+1, append(cur, universe[i]))
		}
	}
	rec(0, nil)
	return out
}

// oneSideDupMatched reports whether, at some step, two series of the "one" side of the
// match (the right side, or the left side for group_right) share a match group in which
// the other side also has a series present at that step. Samples sit exactly on the
// steps and the lookback is shorter than the step.
func oneSideDupMatched(q string, data []core.SeriesSpec) bool {
	e, err := parser.ParseExpr(q)
	if err != nil {
		return false
	}
	be, ok := e.(*parser.BinaryExpr)
	if !ok || be.VectorMatching == nil {
		return false
	}
	vm := be.VectorMatching
	sig := func(l labels.Labels) string {
		if vm.On {
			return labels.NewBuilder(l).Keep(vm.MatchingLabels...).Labels(nil).String()
		}
		return labels.NewBuilder(l).Del(vm.MatchingLabels...).Del(labels.MetricName).Labels(nil).String()
	}
	type key struct {
		t   int64
		sig string
	}
	one, other := map[key]int{}, map[key]int{}
	for _, d := range data {
		l, err := core.ParseLabels(d.L)
		if err != nil {
			continue
		}
		isLeft := l.Get(labels.MetricName) == "a"
		isOne := !isLeft
		if vm.Card == parser.CardOneToMany {
			isOne = isLeft
		}
		for _, p := range d.S {
			k := key{p.T, sig(l)}
			if isOne {
				one[k]++
			} else {
				other[k]++
			}
		}
	}
	for k, n := range one {
		if n >= 2 && other[k] >= 1 {
			return true
		}
	}
	return false
}

func init() {
	check.Register("C05/enum", func(c *check.Ctx) {
		maxSide := 2
		if c.Thorough() {
			maxSide = 3
		}
		lcfg := labelConfigs("a", maxSide)
		rcfg := labelConfigs("b", maxSide)
		ops := []string{"+", "/", "==", ">", "atan2"}
		if c.Thorough() {
			ops = gen.BinOps
		}
		c.Rep.Bounds["series_per_side_max"] = maxSide
		c.Rep.Bounds["label_configurations_per_side"] = len(lcfg)
		c.Rep.Bounds["matchings"] = gen.Matchings
		c.Rep.Bounds["operators"] = ops
		// presence: side series present at all 3 steps, or ending / starting in between
		mkSeries := func(l string, idx int, pattern int) core.SeriesSpec {
			s := core.SeriesSpec{L: l}
			for st := 0; st < 3; st++ {
				if pattern&(1<<st) != 0 {
					s.S = append(s.S, p(int64(st)*30000, float64(1+idx)+float64(st)*0.5))
				}
			}
			return s
		}
		o := core.Opts{Optimizers: "none", LookbackMs: 20000}
		w := core.Range(0, 30000, 3)
		runCases(c, "C05", func(emit func(*core.Case)) {
			for li, lc := range lcfg {
				for ri, rc := range rcfg {
					// quick: presence patterns all-present, and one "disjoint steps" variant
					// a pattern is the presence (bit per step) of {even left, odd left, even
					// right, odd right} series
					patterns := [][4]int{{7, 7, 7, 7}}
					if (li+ri)%5 == 0 || c.Thorough() {
						patterns = append(patterns, [4]int{3, 6, 6, 3}, [4]int{1, 7, 7, 1}, [4]int{5, 2, 2, 5})
					}
					// one whole side absent at a step where the other side is complete (the
					// reference does not look at a side when the other one is empty)
					patterns = append(patterns, [4]int{7, 7, 6, 6}, [4]int{3, 3, 7, 7})
					if (li+ri)%5 == 1 || c.Thorough() {
						patterns = append(patterns, [4]int{7, 7, 1, 4}, [4]int{6, 3, 2, 2}, [4]int{5, 5, 7, 2})
					}
					for _, pat := range patterns {
						var data []core.SeriesSpec
						for i, l := range lc {
							data = append(data, mkSeries(l, i, pat[i%2]))
						}
						for i, l := range rc {
							data = append(data, mkSeries(l, 3+i, pat[2+i%2]))
						}
						for _, op := range ops {
							for _, m := range gen.Matchings {
								q := gen.Canon(fmt.Sprintf("a %s %s b", op, m))
								note := fmt.Sprintf("cfg %d/%d pat %v", li, ri, pat)
								if q != "" && oneSideDupMatched(q, data) {
									// the engine does detect duplicates of the one side when the
									// group is matched at that step: F03 must not mask these
									note += " feat:dup:one-side-matched"
								}
								if q != "" {
									emit(&core.Case{Q: q, Data: data, W: w, O: o, Note: note})
								}
								if gen.CmpOps[op] {
									q = gen.Canon(fmt.Sprintf("a %s bool %s b", op, m))
									if q != "" {
										emit(&core.Case{Q: q, Data: data, W: w, O: o, Note: note})
									}
								}
							}
						}
					}
				}
			}
		})
		// scalar on the left/right/both, operands that are aggregations / topk / nested binaries
		runCases(c, "C05", func(emit func(*core.Case)) {
			// "nope" has no series at all; `a + on (l) b` is ambiguous over D1 (an error that
			// has to surface whatever the other operand holds)
			operands := []string{"a", "b", "sum by (l) (a)", "max without (m) (a)", "topk by (l) (1, a)", "bottomk(2, a)", "a + on (l) group_left b", "a > 2", "-a", "2", "time()", `scalar(b{l="0"})`,
				"nope", "a + on (l) b"}
			for _, ds := range []string{"D1", "D2", "D3"} {
				data := dataset(ds)
				for _, wv := range []core.Window{core.Range(10000, 30000, 12), core.Instant(45000)} {
					for _, l := range operands {
						for _, r := range operands {
							ms := []string{"", "on (l)", "ignoring (m)", "on (l) group_left", "on (l) group_right", "on (__name__)", "on (__name__, l) group_left", "ignoring (__name__, m)"}
							for _, q := range gen.BinsOver(l, r, gen.BinOps, ms, true) {
								cq := gen.Canon(q)
								if cq == "" {
									continue
								}
								emit(&core.Case{Q: cq, Data: data, W: wv, O: core.Opts{Optimizers: "none"}, Note: ds})
							}
						}
					}
				}
			}
		})
	})
}

// ---------------------------------------------------------------------------------
// C06: instant functions, scalars, unary minus, @

func c06Data() []core.SeriesSpec {
	vals := []float64{0, 1, -1, 0.5, 2, 1e6, math.NaN(), math.Inf(1), math.Inf(-1), -0.5, 1.5, 100}
	var out []core.SeriesSpec
	for i := 0; i < 3; i++ {
		s := core.SeriesSpec{L: fmt.Sprintf(`a{l="%d"}`, i)}
		for k := 0; k < 110; k++ {
			s.S = append(s.S, p(int64(k)*30000, vals[(k+i*5)%len(vals)]))
		}
		out = append(out, s)
	}
	// a label name that sorts before __name__
	z := core.SeriesSpec{L: `a{Zone="x",l="3"}`}
	for k := 0; k < 110; k++ {
		z.S = append(z.S, p(int64(k)*30000, vals[(k+7)%len(vals)]))
	}
	out = append(out, z)
	// a scalar source that is absent at some steps
	b := core.SeriesSpec{L: `b{l="0"}`}
	for k := 0; k < 110; k++ {
		if k%7 == 3 || k%7 == 4 {
			continue
		}
		b.S = append(b.S, p(int64(k)*30000, float64(k%5)))
	}
	out = append(out, b)
	// vectors that are absent for a whole batch of the step grid (steps 10..19 of a
	// window starting at 0; the lookback is shorter than the step) and come back later,
	// and for a stretch straddling two batches
	for i, holes := range [][2]int{{10, 19}, {13, 24}, {0, 9}, {20, 110}} {
		g := core.SeriesSpec{L: fmt.Sprintf(`g{l="%d"}`, i)}
		for k := 0; k < 110; k++ {
			if k >= holes[0] && k <= holes[1] {
				continue
			}
			g.S = append(g.S, p(int64(k)*30000, float64(k%13)-3))
		}
		out = append(out, g)
	}
	for _, le := range []string{"1", "10", "+Inf"} {
		h := core.SeriesSpec{L: fmt.Sprintf(`gh_bucket{le="%s"}`, le)}
		for k := 0; k < 110; k++ {
			if k >= 10 && k <= 19 {
				continue
			}
			h.S = append(h.S, p(int64(k)*30000, map[string]float64{"1": 2, "10": 5, "+Inf": 9}[le]*float64(k+1)))
		}
		out = append(out, h)
	}
	// histogram buckets
	for _, le := range []string{"0.1", "1", "10", "+Inf"} {
		h := core.SeriesSpec{L: fmt.Sprintf(`h_bucket{l="0",le="%s",z="1"}`, le)}
		base := map[string]float64{"0.1": 1, "1": 3, "10": 7, "+Inf": 10}[le]
		for k := 0; k < 110; k++ {
			h.S = append(h.S, p(int64(k)*30000, base*float64(k+1)))
		}
		out = append(out, h)
	}
	out = append(out,
		gen.Regular(`h_bucket{l="1",le="1"}`, 0, 30000, 110, 2, 1), // missing +Inf
		gen.Regular(`h_bucket{l="1",le="5"}`, 0, 30000, 110, 4, 1),
		gen.Regular(`h_bucket{l="2",le="+Inf"}`, 0, 30000, 110, 4, 1), // single bucket
		gen.Regular(`h_bucket{l="3",le="abc"}`, 0, 30000, 110, 4, 1),  // non-numeric le
		gen.Regular(`h_bucket{l="3",le="+Inf"}`, 0, 30000, 110, 9, 1),
		gen.Regular(`h_bucket{l="3",le="1"}`, 0, 30000, 110, 3, 1),
		gen.Regular(`h_bucket{l="3",le="1.0"}`, 0, 30000, 110, 3, 1), // duplicate le value
		// two labels that sort after le
		gen.Regular(`h_bucket{l="4",le="1",pod="p",zone="z"}`, 0, 30000, 110, 2, 1),
		gen.Regular(`h_bucket{l="4",le="+Inf",pod="p",zone="z"}`, 0, 30000, 110, 5, 2),
	)
	return out
}

func init() {
	check.Register("C06/enum", func(c *check.Ctx) {
		data := c06Data()
		o := core.Opts{Optimizers: "none", LookbackMs: 20000}
		var ws []core.Window
		var ns []int
		for n := 1; n <= 35; n++ {
			ns = append(ns, n)
		}
		ns = append(ns, 101)
		if c.Thorough() {
			ns = append(ns, 100, 109, 110)
		}
		for _, n := range ns {
			ws = append(ws, core.Range(0, 30000, n))
		}
		ws = append(ws, core.Instant(90000), core.Instant(0))
		c.Rep.Bounds["step_counts"] = ns
		qs := gen.NewSet()
		args := []string{"a", `a{l="1"}`, "sum by (l) (a)", "abs(a)", "-a", "a @ 60.000", `a * scalar(b{l="0"})`}
		for _, arg := range args {
			for _, q := range gen.CallsOver(arg, false) {
				qs.Add(q, 1)
			}
			qs.Add("-("+arg+")", 1)
			qs.Add("scalar("+arg+")", 1)
			qs.Add("("+arg+") @ 60.000", 1)
		}
		for _, q := range gen.NoOperandCalls() {
			qs.Add(q, 1)
		}
		for _, q := range []string{"2", "-1.5", "NaN", "Inf", "time()", "pi()", "time() * 2", "-time()", "2 + 3", `scalar(b{l="0"})`, `scalar(b{l="0"}) + time()`,
			`scalar(a)`, `scalar(a{l="0"})`, `vector(scalar(a{l="0"}))`,
			// scalar() of something that has no series at all is NaN at every step
			`scalar(nope)`, `vector(scalar(nope))`, `scalar(a{l="9"})`, `vector(scalar(nope @ 60.000))`, `scalar(nope) + 1`, `a + scalar(nope)`, `vector(scalar(sum(nope)))`,
			`clamp_min(a, scalar(nope))`, `scalar(nope offset 30s) > bool 1`, `-scalar(nope)`, `vector(time())`, `-vector(2)`, `scalar(b{l="0"}) > bool 2`, `time() > bool 600`,
			`a @ 60.000 + a`, `sum(a @ 60.000) + a`, `a + scalar(a{l="0"} @ 60.000)`, `abs(a @ 60.000)`, `a @ 90.000 offset 30s`, `rate(a[1m] @ 120.000)`,
			`histogram_quantile(0.5, h_bucket)`, `histogram_quantile(0.9, h_bucket{l="0"})`, `histogram_quantile(scalar(b{l="0"}) / 5, h_bucket)`,
			`histogram_quantile(-1, h_bucket)`, `histogram_quantile(2, h_bucket)`, `histogram_quantile(NaN, h_bucket)`, `histogram_quantile(0.5, rate(h_bucket[1m]))`,
			`histogram_quantile(0.5, sum by (le) (h_bucket))`, `histogram_quantile(0.5, a)`,
			`clamp(a, scalar(b{l="0"}), 3)`, `clamp_min(a, scalar(b{l="0"}))`, `clamp_max(a, time() / 100)`, `clamp(a, -1, time() / 1000)`,
			// the sign of a zero shows through a division
			`1 / -a`, `1 / -a{l="1"} @ 60.000`, `1 / -scalar(a{l="0"})`, `1 / -(a * 0)`, `1 / abs(-a)`, `1 / -vector(0)`, `1 / ceil(-a / 10)`,
			// a scalar argument computed by an aggregation that runs ahead behind its exchange buffer
			`clamp_max(a, scalar(max(b)))`, `clamp_min(a, scalar(sum(b) / 2))`, `clamp(a, scalar(min(b)), scalar(max(a)))`} {
			qs.Add(q, 1)
		}
		// arguments paired step by step with a vector that is absent for whole batches
		for _, g := range []string{`g{l="0"}`, `g{l="1"}`, `g{l="2"}`, `g{l="3"}`, `g`, `g{l=~"0|3"}`} {
			for _, q := range []string{`clamp_min(%s, time() / 100)`, `clamp_max(%s, scalar(b{l="0"}))`, `clamp(%s, scalar(b{l="0"}) - 2, time() / 300)`, `%s + scalar(b{l="0"})`,
				`%s * time()`, `%s > bool time() / 300`, `vector(time()) + on () group_right %s`, `-%s`, `abs(%s)`, `scalar(%s)`, `scalar(%s) + time()`, `clamp_min(abs(%s), time() / 100)`,
				`clamp_min(%s, scalar(%[1]s))`, `clamp_min(a, scalar(%s))`, `%s + on (l) group_left a`, `a + on (l) group_right %s`, `sum(%s) + time()`} {
				qs.Add(fmt.Sprintf(q, g), 1)
			}
		}
		qs.Add(`histogram_quantile(scalar(b{l="0"}) / 5, gh_bucket)`, 1)
		qs.Add(`histogram_quantile(time() / 4000, gh_bucket)`, 1)
		c.Rep.Transitions += qs.Transitions
		c.Rep.Bounds["queries"] = len(qs.List)
		runCases(c, "C06", func(emit func(*core.Case)) {
			for _, q := range qs.List {
				for _, w := range ws {
					emit(&core.Case{Q: q, Data: data, W: w, O: o, Note: "c06"})
					// per-step arguments once more with the deterministic pool that hands a
					// recycled buffer out again at once: a buffer recycled twice, or while
					// still in use, then shows in the values
					if n := w.NSteps(); (n == 35 || n == 101) && (strings.Contains(q, "scalar(") || strings.Contains(q, "time()")) {
						ol := o
						ol.Pool = "lifo"
						emit(&core.Case{Q: q, Data: data, W: w, O: ol, Note: "c06 lifo pool"})
					}
				}
			}
		})
	})
}
