package checks

import (
	"fmt"
	"sort"
	"strings"

	"github.com/prometheus/prometheus/promql/parser"

	"verif/harness/check"
	"verif/harness/core"
	"verif/harness/gen"
	"verif/harness/mstore"
)

// ---------------------------------------------------------------------------------
// C16: select hints

func selectKey(r mstore.SelectRec, withQuerier bool) string {
	h := r.Hints
	g := append([]string(nil), h.Grouping...)
	sort.Strings(g) // the grouping hint is a set of labels
	s := fmt.Sprintf("%s h[%d,%d] step=%d range=%d func=%q by=%v grouping=%v", r.Matchers, h.Start, h.End, h.Step, h.Range, h.Func, h.By, g)
	if withQuerier {
		s += fmt.Sprintf(" q[%d,%d]", r.Mint, r.Maxt)
	}
	return s
}

func selectSet(rs []mstore.SelectRec) []string {
	// the engine pools identical selects, the reference issues one per selector node:
	// compare as sets
	m := map[string]bool{}
	for _, r := range rs {
		m[selectKey(r, false)] = true
	}
	var out []string
	for k := range m {
		out = append(out, k)
	}
	sort.Strings(out)
	return out
}

func c16Hints(cs *core.Case) (ran bool, sym, det string) {
	st := storeFor(cs)
	out := core.RunEngine(cs, st)
	if out.Res.CreateErr != "" {
		return false, "", ""
	}
	if s, d := engineSymptom(out); s != "" {
		return true, s, d
	}
	eng := selectSet(out.Selects)
	refSel, ref := core.RefSelects(cs, st)
	if ref.CreateErr != "" {
		return false, "", ""
	}
	want := selectSet(refSel)
	if strings.Join(eng, "\n") != strings.Join(want, "\n") {
		// find first difference
		es, ws := map[string]bool{}, map[string]bool{}
		for _, e := range eng {
			es[e] = true
		}
		for _, w := range want {
			ws[w] = true
		}
		// Every select the engine issues must be one the reference issues. A select
		// the engine never issues is tolerated (and counted) only if the evaluation
		// produced nothing - an operand it did not need to evaluate, e.g. the scalar
		// argument of a function whose vector argument is empty.
		for _, e := range eng {
			if !ws[e] {
				closest := ""
				for _, w := range want {
					if !es[w] {
						closest = w
						break
					}
				}
				return true, "hints", fmt.Sprintf("engine selects %s; the reference issues no such select (closest unmatched: %s)", e, closest)
			}
		}
		if out.Res.Failed() || out.Res.NPoints() == 0 {
			return true, "lazy", ""
		}
		for _, w := range want {
			if !es[w] {
				return true, "hints", "the reference selects " + w + "; the engine issues no such select although it returns a non-empty result"
			}
		}
	}
	return true, "", ""
}

func c16Sufficiency(cs *core.Case) (ran bool, sym, det string) {
	st := storeFor(cs)
	st.TruncateToHints = false
	full := core.RunEngine(cs, st)
	if full.Res.CreateErr != "" {
		return false, "", ""
	}
	if s, d := engineSymptom(full); s != "" {
		return true, s, d
	}
	st.TruncateToHints = true
	trunc := core.RunEngine(cs, st)
	st.TruncateToHints = false
	if s, d := engineSymptom(trunc); s != "" {
		return true, s, d
	}
	s, d := core.Diff(full.Res, trunc.Res, false)
	if s == "" {
		return true, "", ""
	}
	// Is the result of this query a function of its inputs at all? Where the reference
	// rejects the query (the F03 family: several same-group series in a one-to-one match)
	// the engine picks one of the duplicates by map order; topk ties are arbitrary too.
	if ref := core.RunRef(cs, st); ref.Failed() {
		return true, "nondeterministic", "reference rejects"
	}
	if hasK(cs.Q) && kOperandHasTie(cs, st) {
		return true, "nondeterministic", "topk tie"
	}
	for i := 0; i < 5; i++ {
		again := core.RunEngine(cs, st)
		if s2, _ := core.Diff(full.Res, again.Res, false); s2 != "" {
			return true, "nondeterministic", "unstable"
		}
	}
	// deterministic over the full storage: the difference must then show every time
	st.TruncateToHints = true
	defer func() { st.TruncateToHints = false }()
	for i := 0; i < 5; i++ {
		again := core.RunEngine(cs, st)
		if s2, _ := core.Diff(full.Res, again.Res, false); s2 == "" {
			return true, "nondeterministic", "unstable"
		}
	}
	return true, "hints-insufficient:" + s, "over a storage that drops samples outside [hints.Start, hints.End]: " + d
}

func init() {
	check.Replayers["enum:C16h"] = func(f *check.Failure) (string, string) {
		_, s, d := c16Hints(f.Case)
		return s, d
	}
	check.Replayers["enum:C16s"] = func(f *check.Failure) (string, string) {
		_, s, d := c16Sufficiency(f.Case)
		return s, d
	}
	check.Register("C16/enum", func(c *check.Ctx) {
		f := gen.FullDepth1()
		depth := 2
		k := gen.KDepth(depth)
		qs := append([]string(nil), f.List...)
		for _, q := range k.List {
			if !f.Has(q) {
				qs = append(qs, q)
			}
		}
		// shapes the property names explicitly
		for _, q := range []string{`sum by (l) (a + b)`, `abs(a + b)`, `sum by (l) (-a)`, `sum by (l) ((a))`, `sum by (l) (abs(a))`, `sum without (m) (rate(a[1m]))`,
			`sum by (l) (rate(a[1m] offset 30s))`, `max by (l) (a @ start())`, `max by (l) (a @ end() offset 1m)`, `sum by (l) (a @ 45.000 + b)`,
			`topk by (l) (1, a)`, `quantile by (l) (0.5, -a)`, `sum by (l) (clamp_min(a, scalar(b)))`, `sum(sum by (l) (a))`, `-sum by (l) (a)`, `(sum by (l) (a)) + (max by (m) (b))`,
			`sum by (l) (a offset -30s)`, `rate(a[90s] @ 100.000 offset 30s)`, `sum by (l) (last_over_time(a[1m]))`,
			// unary plus and parentheses between an aggregation and its selector
			`sum by (l) (+a)`, `sum(+a)`, `max without (m) (+a)`, `quantile by (l) (0.5, +a)`, `abs(+a)`, `+(a)`, `sum by (l) (+(a))`, `sum by (l) (+sum by (l, m) (a))`,
			`topk by (l) (1, +a)`, `sum by (l) (+rate(a[1m]))`, `sum by (l) (-(+a))`, `count without (l) (+a offset 30s)`,
			// a pinned selector inside an aggregation parameter, and as the vector argument of a
			// function whose other argument varies per step
			`topk(scalar(b{l="0"} @ 100.000), a)`, `quantile(scalar(b{l="0"} @ 45.000) / 10, a)`, `clamp_min(a @ end(), scalar(b{l="0"}))`, `clamp_max(-a @ 45.000, scalar(b{l="0"}))`,
			`histogram_quantile(scalar(b{l="0"}) / 10, a @ end())`, `clamp(a @ start() offset 30s, scalar(b{l="0"}), 100)`,
			// pinned exactly at the epoch
			`a @ 0.000`, `sum by (l) (a @ 0.000)`, `rate(a[1m] @ 0.000)`, `a @ 0.000 + a`, `max_over_time(a[45s] @ 0.000 offset -30s)`} {
			if cq := gen.Canon(q); cq != "" && !f.Has(cq) && !k.Has(cq) {
				qs = append(qs, cq)
			}
		}
		c.Rep.Transitions += f.Transitions + k.Transitions
		c.Rep.Bounds["queries"] = len(qs)
		// (the last one: a range query with a single step)
		ws := []core.Window{core.Instant(45000), core.Range(10000, 30000, 11), core.Range(0, 45000, 21), core.Range(45000, 30000, 1), core.Range(1200000, 30000, 3)}
		los := []core.Opts{{Optimizers: "none"}, {Optimizers: "none", LookbackMs: 60000}, {Optimizers: "none", QLookbackMs: 45000}}
		optsets := []string{"none", "", "all", "s", "m", "p", "sm", "mp"}
		if !c.Thorough() {
			optsets = []string{"none", "", "all"}
		}
		c.Rep.Bounds["optimizer_sets_for_sufficiency"] = optsets
		data := dataset("D2")
		// half 1: the engine's selects equal the reference's (no plan rewrites)
		for _, q := range qs {
			for _, w := range ws {
				for _, o := range los {
					c.Rep.Transitions++
					if !c.Mine() {
						continue
					}
					if c.Expired() {
						return
					}
					cs := &core.Case{Q: q, Data: data, W: w, O: o, Note: "D2 hints"}
					if !c.Progress(cs) {
						continue
					}
					ran, sym, det := c16Hints(cs)
					if !ran {
						c.Rep.Outcomes["not-native"]++
						continue
					}
					c.Rep.States++
					c.Rep.Evaluations++
					c.Rep.Traces++
					c.Rep.Nontrivial++
					if c.Shard == 0 {
						c.Sample(map[string]any{"half": "hints-equal-reference", "q": q, "window": w, "opts": o})
					}
					if sym == "" {
						c.Rep.Outcomes["hints-agree"]++
						continue
					}
					if sym == "lazy" {
						c.Rep.Outcomes["hints-agree-some-selects-never-issued"]++
						continue
					}
					c.Rep.Outcomes["diff:"+sym]++
					cp := *cs
					c.Fail(check.Failure{Prop: "C16", Kind: "enum", Sub: "C16h", Symptom: sym, Detail: det, Case: &cp})
				}
			}
		}
		// half 2: the hinted range is sufficient, with and without rewrites
		for _, q := range qs {
			for _, w := range ws {
				for _, os := range optsets {
					c.Rep.Transitions++
					if !c.Mine() {
						continue
					}
					if c.Expired() {
						return
					}
					cs := &core.Case{Q: q, Data: data, W: w, O: core.Opts{Optimizers: os}, Note: "D2 sufficiency"}
					if !c.Progress(cs) {
						continue
					}
					ran, sym, det := c16Sufficiency(cs)
					if !ran {
						continue
					}
					c.Rep.States++
					c.Rep.Evaluations += 2
					c.Rep.Traces += 2
					c.Rep.Nontrivial++
					if sym == "" {
						c.Rep.Outcomes["sufficient"]++
						continue
					}
					if sym == "nondeterministic" {
						c.Rep.Outcomes["result-not-deterministic(skipped):"+det]++
						if det == "unstable" {
							c.Note("sufficiency: result of %q is not reproducible although the reference accepts it and no topk tie exists", q)
						}
						continue
					}
					c.Rep.Outcomes["diff:"+sym]++
					cp := *cs
					c.Fail(check.Failure{Prop: "C16", Kind: "enum", Sub: "C16s", Symptom: sym, Detail: det, Case: &cp})
				}
			}
		}
	})
}

// ---------------------------------------------------------------------------------
// C10: distributed = central

func c10Once(cs *core.Case) (ran, nontrivial bool, sym, det string) {
	central := *cs
	central.NDist = 0
	central.Dist = nil
	st := storeFor(&central)
	cen := core.RunEngine(&central, st)
	if cen.Res.CreateErr != "" && (cen.ErrIs["unsupported"] || cen.ErrIs["notimplemented"]) {
		return false, false, "", ""
	}
	if strings.Contains(cs.Note, "feat:second-engine") {
		// another distributed engine, over one remote engine holding other data, is
		// constructed with the same options before the first one is used
		other := *cs
		other.NDist, other.Dist = 1, nil
		other.Data = []core.SeriesSpec{gen.Regular(`a{l="0",m="0"}`, 0, 30000, 20, 1000, 7), gen.Regular(`b{l="0"}`, 0, 30000, 20, 500, 3)}
		core.AfterBuild = func() { core.BuildEngine(&other, nil) }
		defer func() { core.AfterBuild = nil }()
	}
	if strings.Contains(cs.Note, "feat:late-endpoints") {
		// the endpoints report one remote engine while the distributed engine is
		// constructed and all of them from then on
		core.EndpointsAtBuild = 1
		core.AfterBuild = core.RevealEndpoints
		defer func() { core.EndpointsAtBuild = -1; core.AfterBuild = nil }()
	}
	dist := core.RunEngine(cs, st)
	if s, d := engineSymptom(dist); s != "" {
		return true, false, s, d
	}
	if s, d := core.Diff(cen.Res, dist.Res, false); s != "" {
		if hasK(cs.Q) && tieEqual(cen.Res, dist.Res) {
			return true, true, "", ""
		}
		return true, true, "dist:" + s, "central engine vs distributed engine: " + d
	}
	return true, !cen.Res.Failed() && cen.Res.NPoints() > 0, "", ""
}

func c10Queries(thorough bool) []string {
	set := gen.NewSet()
	for _, q := range c10QueriesRaw(thorough) {
		set.Add(q, 1)
	}
	return set.List
}

func c10QueriesRaw(thorough bool) []string {
	qs := []string{
		`a`, `sum by (l) (a)`, `sum(a)`, `count by (l) (a)`, `count(a)`, `min by (l) (a)`, `max without (m) (a)`, `group by (l) (a)`,
		`avg by (l) (a)`, `avg(a)`, `stddev(a)`, `quantile(0.5, a)`, `topk(1, a)`, `bottomk by (l) (1, a)`, `topk(2, a)`,
		`rate(a[1m])`, `sum by (l) (rate(a[1m]))`, `abs(a)`, `-a`, `a + 1`, `a + a`, `sum by (l) (a) / count by (l) (a)`,
		`max by (l) (sum by (l, m) (a))`, `sum by (l) (a) + 1`, `min by (l) (a) + on (l) group_right a`, `sum(a) + sum(b)`, `scalar(sum(a))`,
		`sum by (l) (a @ 45.000)`, `sum by (l) (a offset 30s)`, `count(a > 2)`, `sum by (l) (abs(a))`, `abs(sum by (l) (a))`, `avg(a) + count(a)`,
	}
	// mixtures of a pushed-down part with a part that stays on the coordinator (a function
	// with a literal argument is not distributed), in both operand orders
	qs = append(qs, `sum by (l) (a) + on (l) group_left clamp_min(b, 0)`, `clamp_min(b, 0) + on (l) group_right sum by (l) (a)`, `clamp_min(a, 2)`,
		`sum by (l) (a) / on (l) group_left clamp_max(b, 100)`, `max(a) + scalar(clamp_min(b{l="0"}, 0))`, `clamp(a, 0, 100) + on (l, m) sum by (l, m) (a)`,
		`sum by (l) (a) + on (l) group_left (b * 2)`, `(b * 2) + on (l) group_right sum by (l) (a)`)
	// expressions that look at several series at once or at none (a scalar of a vector, a
	// parameter computed from series, functions without a vector argument): evaluated by
	// each engine over its own partition they differ from the central result
	qs = append(qs, `scalar(a)`, `scalar(a{l="0",m="0"})`, `time()`, `vector(time())`, `vector(1)`, `pi()`, `a * scalar(a{l="0",m="0"})`, `clamp_min(a, scalar(b))`,
		`clamp_min(a, scalar(sum(a)))`, `clamp_max(a, scalar(a{l="0",m="1"}))`, `topk(scalar(count(a)) - 1, a)`, `topk(scalar(a{l="0",m="0"}) / 100, a)`, `bottomk by (l) (scalar(b), a)`,
		`abs(a) + scalar(a{l="1",m="0"})`, `sum by (l) (a) * scalar(a{l="0",m="1"})`, `scalar(b) + 1`, `histogram_quantile(scalar(b) / 10, a)`, `scalar(a) + scalar(b)`,
		`quantile(scalar(b) / 10, a)`, `a > bool scalar(a{l="0",m="0"})`, `scalar(count(a) > 2)`, `vector(scalar(a{l="0",m="1"}))`, `max(a) * time()`)
	// @-pinned operands that are not below a pushed-down aggregation
	qs = append(qs, `a @ 45.000`, `a - a @ 45.000`, `rate(a[1m] @ 90.000)`, `a + on (l, m) group_right a @ end()`, `abs(a @ start())`, `a @ 45.000 offset 30s`, `-a @ end()`,
		`sum by (l) (a) / on (l) group_left b @ 60.000`, `max(a @ 45.000) + a`)
	// every aggregation x every grouping kind, bare and under one more operator
	for _, g := range []string{"", "by (l)", "without (m)", "without ()", "by (l, m)", "by (z)"} {
		for _, op := range gen.SimpleAgg {
			x := fmt.Sprintf("%s %s (a)", op, g)
			qs = append(qs, x)
			if g == "by (l)" || g == "without (m)" {
				qs = append(qs, "abs("+x+")", x+" + 1", "max by (l) ("+x+")", "count("+x+")", x+" / on (l) group_left sum by (l) (b)")
			}
		}
		qs = append(qs, fmt.Sprintf("topk %s (1, a)", g), fmt.Sprintf("bottomk %s (2, a)", g), fmt.Sprintf("quantile %s (0.5, a)", g),
			fmt.Sprintf("sum %s (rate(a[1m]))", g), fmt.Sprintf("count %s (a > 5)", g))
	}
	if thorough {
		qs = append(qs, `sum by (l) (sum_over_time(a[45s]))`, `max(avg by (l) (a))`, `count by (m) (a) > 1`, `topk(1, sum by (l) (a))`,
			`sum without (l) (a) - min without (l) (a)`, `clamp_min(sum by (l) (a), 3)`, `sum by (l) (a) > bool 5`, `group(a)`, `stdvar by (l) (a)`)
	}
	return qs
}

func c10Data(variant string, n int) []core.SeriesSpec {
	var out []core.SeriesSpec
	lsets := []string{`a{l="0",m="0"}`, `a{l="0",m="1"}`, `a{l="1",m="0"}`, `a{l="1",m="1"}`, `a{l="2"}`, `a{m="2"}`, `a{l="0",m="2"}`}
	for i := 0; i < n; i++ {
		s := gen.Regular(lsets[i], 0, 30000, 20, float64(1+3*i), 1+float64(i)*0.25)
		switch variant {
		case "ends":
			if i%2 == 0 {
				s.S = s.S[:6+i] // ends inside the window
			}
		case "stale":
			if i%2 == 1 {
				s.S[5].V = core.F(core.Stale)
				s.S[6].V = core.F(core.Stale)
			} else {
				s.S = append(s.S[:8], s.S[12:]...) // gap
			}
		}
		out = append(out, s)
	}
	out = append(out, gen.Regular(`b{l="0"}`, 0, 30000, 20, 2, 1))
	return out
}

func init() {
	check.Replayers["enum:C10"] = func(f *check.Failure) (string, string) {
		_, _, s, d := c10Once(f.Case)
		return s, d
	}
	check.Register("C10/enum", func(c *check.Ctx) {
		maxN, maxK := 4, 3
		if c.Thorough() {
			maxN, maxK = 7, 4
		}
		c.Rep.Bounds["series_max"] = maxN
		c.Rep.Bounds["engines_max"] = maxK
		qs := c10Queries(c.Thorough())
		ws := []core.Window{core.Range(10000, 30000, 14), core.Instant(100000)}
		// optimizer sets other than none (the distributed optimizer runs after them), with
		// and without a second distributed engine constructed in the same process
		for _, opt := range []string{"", "all", "sm", "p", "none"} {
			for _, second := range []bool{false, true} {
				if opt == "none" && !second {
					continue
				}
				data := c10Data("regular", 3)
				for code := 0; code < 8; code++ {
					dist := make([]int, len(data))
					for i := 0; i < 3; i++ {
						dist[i] = (code >> i) & 1
					}
					for _, q := range qs {
						for _, w := range ws {
							c.Rep.Transitions++
							if !c.Mine() {
								continue
							}
							if c.Expired() {
								return
							}
							cs := &core.Case{Q: q, Data: data, W: w, O: core.Opts{Optimizers: opt}, Dist: dist, NDist: 2, Note: "optimizers"}
							if second && opt == "none" {
								// remote engines that are discovered after the engine was built
								cs.Note = "feat:late-endpoints"
							} else if second {
								cs.Note += " feat:second-engine"
							}
							if !c.Progress(cs) {
								continue
							}
							ran, nt, sym, det := c10Once(cs)
							if !ran {
								continue
							}
							c.Rep.States++
							c.Rep.Evaluations += 2
							c.Rep.Traces += 2
							if nt {
								c.Rep.Nontrivial++
							}
							if sym == "" {
								c.Rep.Outcomes["agree"]++
								continue
							}
							c.Rep.Outcomes["diff:"+sym]++
							cp := *cs
							c.Fail(check.Failure{Prop: "C10", Kind: "enum", Sub: "C10", Symptom: sym, Detail: det, Case: &cp})
						}
					}
				}
			}
		}
		// remote parts that the remote engines hand to their fallback (fallback enabled on the
		// coordinator and on the remotes): the remote result is then a Prometheus result
		for _, variant := range []string{"regular", "stale"} {
			for n := 2; n <= 3; n++ {
				data := c10Data(variant, n)
				for k := 1; k <= 3; k++ {
					total := 1
					for i := 0; i < n; i++ {
						total *= k
					}
					for code := 0; code < total; code++ {
						dist := make([]int, len(data))
						x := code
						for i := 0; i < n; i++ {
							dist[i] = x % k
							x /= k
						}
						for _, q := range []string{`round(a)`, `sum by (l) (round(a))`, `count by (l) (sgn(a))`, `max(round(a))`, `topk by (l) (1, round(a))`, `sort(a)`, `sum(a or b)`,
							`max by (l) (a[1m:30s] offset 30s != 0 or a)`, `sum by (l) (a) + on (l) group_left round(b)`, `round(sum by (l) (a))`, `sum by (l) (label_replace(a, "x", "$1", "l", "(.*)"))`,
							`absent(a)`, `absent(a{l="0",m="1"})`, `absent(nope)`, `absent_over_time(a{l="1",m="0"}[1m])`, `sum(absent(a{l="7"}))`, `round(scalar(a{l="0",m="0"}))`} {
							for _, w := range ws {
								c.Rep.Transitions++
								if !c.Mine() {
									continue
								}
								if c.Expired() {
									return
								}
								cs := &core.Case{Q: q, Data: data, W: w, O: core.Opts{Optimizers: "none", Fallback: true}, Dist: dist, NDist: k, Note: variant + " fallback"}
								if !c.Progress(cs) {
									continue
								}
								ran, nt, sym, det := c10Once(cs)
								if !ran {
									continue
								}
								c.Rep.States++
								c.Rep.Evaluations += 2
								c.Rep.Traces += 2
								if nt {
									c.Rep.Nontrivial++
								}
								if sym == "" {
									c.Rep.Outcomes["agree"]++
									continue
								}
								c.Rep.Outcomes["diff:"+sym]++
								cp := *cs
								c.Fail(check.Failure{Prop: "C10", Kind: "enum", Sub: "C10", Symptom: sym, Detail: det, Case: &cp})
							}
						}
					}
				}
			}
		}
		c.Rep.Bounds["optimizer_sets"] = "none everywhere; default, all, sort+merge, propagate over 3 series x 2 engines, with and without a second engine in the process"
		for _, variant := range []string{"regular", "ends", "stale"} {
			for n := 1; n <= maxN; n++ {
				data := c10Data(variant, n)
				for k := 1; k <= maxK; k++ {
					// all k^n assignments of the n series of a (b goes to engine 0)
					total := 1
					for i := 0; i < n; i++ {
						total *= k
					}
					for code := 0; code < total; code++ {
						dist := make([]int, len(data))
						x := code
						for i := 0; i < n; i++ {
							dist[i] = x % k
							x /= k
						}
						for _, q := range qs {
							for _, w := range ws {
								c.Rep.Transitions++
								if !c.Mine() {
									continue
								}
								if c.Expired() {
									return
								}
								cs := &core.Case{Q: q, Data: data, W: w, O: core.Opts{Optimizers: "none"}, Dist: dist, NDist: k, Note: variant}
								if !c.Progress(cs) {
									continue
								}
								ran, nt, sym, det := c10Once(cs)
								if !ran {
									continue
								}
								c.Rep.States++
								c.Rep.Evaluations += 2
								c.Rep.Traces += 2
								if nt {
									c.Rep.Nontrivial++
								}
								if c.Shard == 0 {
									c.Sample(map[string]any{"q": q, "assignment": dist[:n], "engines": k, "data": variant, "window": w})
								}
								if sym == "" {
									c.Rep.Outcomes["agree"]++
									continue
								}
								if _, _, s2, _ := c10Once(cs); s2 == "" {
									c.Rep.Extra["unreproduced_failures"]++
									continue
								}
								c.Rep.Outcomes["diff:"+sym]++
								cp := *cs
								c.Fail(check.Failure{Prop: "C10", Kind: "enum", Sub: "C10", Symptom: sym, Detail: det, Case: &cp})
							}
						}
					}
				}
			}
		}
	})
}

// ---------------------------------------------------------------------------------
// C09: optimizers preserve results

func matcherAlphabet() []string {
	var out []string
	for _, k := range []string{"l", "m"} {
		for _, t := range []string{"=", "!=", "=~", "!~"} {
			for _, v := range []string{"0", "", "0|1"} {
				out = append(out, fmt.Sprintf(`%s%s"%s"`, k, t, v))
			}
		}
	}
	return out
}

func selectorsUpTo(metric string, maxMatchers int) []string {
	al := matcherAlphabet()
	out := []string{metric}
	for _, m := range al {
		out = append(out, metric+"{"+m+"}")
	}
	if maxMatchers >= 2 {
		for _, m1 := range al {
			for _, m2 := range al {
				out = append(out, metric+"{"+m1+","+m2+"}")
			}
		}
	}
	return out
}

func c09Data() []core.SeriesSpec {
	var out []core.SeriesSpec
	i := 0
	for _, metric := range []string{"a", "b"} {
		for _, l := range []string{"", "0", "1"} {
			for _, m := range []string{"", "0", "1"} {
				var parts []string
				if l != "" {
					parts = append(parts, `l="`+l+`"`)
				}
				if m != "" {
					parts = append(parts, `m="`+m+`"`)
				}
				out = append(out, gen.Regular(metric+"{"+strings.Join(parts, ",")+"}", 0, 30000, 8, float64(1+i), 0.5))
				i++
			}
		}
	}
	return out
}

var c09Positions = []string{
	`%s + on () %s`, `%s + %s`, `%s * on (l) %s`, `%s / ignoring (m) %s`, `%s > bool %s`, `%s + on (l) group_left %s`,
	`abs(%s) + %s`, `rate(%s[1m]) + %s`, `sum(%s) + sum(%s)`, `sum by (l) (%s) / sum by (l) (%s)`, `%s + scalar(%s)`, `clamp_max(%s, scalar(%s))`,
	`%s - rate(%s[1m])`, `count(%s or vector(0)) + count(%s)`,
}

func c09Once(q string, data []core.SeriesSpec, w core.Window, optsets []string) (ran bool, nontrivial bool, sym, det string, evals int64) {
	base := &core.Case{Q: q, Data: data, W: w, O: core.Opts{Optimizers: "none"}}
	st := storeFor(base)
	b := core.RunEngine(base, st)
	evals++
	if b.Res.CreateErr != "" && (b.ErrIs["unsupported"] || b.ErrIs["notimplemented"]) {
		return false, false, "", "", evals
	}
	if s, d := engineSymptom(b); s != "" {
		return true, false, s, "no optimizers: " + d, evals
	}
	for _, os := range optsets {
		cs := &core.Case{Q: q, Data: data, W: w, O: core.Opts{Optimizers: os}}
		o := core.RunEngine(cs, st)
		evals++
		name := os
		if name == "" {
			name = "default"
		}
		if s, d := engineSymptom(o); s != "" {
			return true, false, s, "optimizers " + name + ": " + d, evals
		}
		if s, d := core.Diff(b.Res, o.Res, false); s != "" {
			return true, true, "optimizer:" + s, fmt.Sprintf("optimizers %q change the result: %s", name, d), evals
		}
	}
	return true, !b.Res.Failed() && b.Res.NPoints() > 0, "", "", evals
}

func init() {
	optAll := []string{"", "all", "s", "m", "p", "sm", "sp", "mp"}
	check.Replayers["enum:C09"] = func(f *check.Failure) (string, string) {
		_, _, s, d, _ := c09Once(f.Case.Q, f.Case.Data, f.Case.W, optAll)
		return s, d
	}
	check.Register("C09/enum", func(c *check.Ctx) {
		data := c09Data()
		maxM := 1
		if c.Thorough() {
			maxM = 2
		}
		selA := selectorsUpTo("a", maxM)
		selB := selectorsUpTo("b", maxM)
		c.Rep.Bounds["selectors_per_metric"] = len(selA)
		c.Rep.Bounds["positions"] = len(c09Positions)
		c.Rep.Bounds["optimizer_sets"] = append([]string{"none"}, optAll...)
		ws := []core.Window{core.Range(10000, 30000, 3)}
		// asWritten: run the text as written (the canonical printing of the parser sorts the
		// matchers of a selector, which would hide the order they were written in)
		asWritten := false
		emit := func(q string, w core.Window) bool {
			cq := gen.Canon(q)
			if cq == "" {
				return true
			}
			if asWritten {
				cq = q
			}
			c.Rep.Transitions++
			if !c.Mine() {
				return true
			}
			if c.Expired() {
				return false
			}
			cs := &core.Case{Q: cq, Data: data, W: w, O: core.Opts{}, Note: "c09"}
			if !c.Progress(cs) {
				return true
			}
			ran, nt, sym, det, ev := c09Once(cq, data, w, optAll)
			if !ran {
				return true
			}
			c.Rep.States++
			c.Rep.Evaluations += ev
			c.Rep.Traces += ev
			if nt {
				c.Rep.Nontrivial++
			}
			if c.Shard == 0 {
				c.Sample(map[string]any{"q": cq, "window": w, "optimizer_sets": 9})
			}
			if sym == "" {
				c.Rep.Outcomes["agree"]++
				return true
			}
			c.Rep.Outcomes["diff:"+sym]++
			c.Fail(check.Failure{Prop: "C09", Kind: "enum", Sub: "C09", Symptom: sym, Detail: det, Case: cs})
			return true
		}
		// expressions with offsets / @ on the selectors (first: they are few)
		for _, q := range []string{
			`a{l="0"} offset 30s + a`, `a{l="0"} + a offset 30s`, `a{l="0"} @ 45.000 + a`, `rate(a{l="0"}[1m] offset 30s) / rate(a[1m])`,
			`sum by (l) (a{m="0"}) / sum by (l) (a)`, `a{l="0",m="0"} / on (l) group_left a{l="0"}`, `a{l="0"} + b{m="1"}`, `a{l="0"} - b`, `a - b{l!="1"}`,
			`a{l=~"0|1"} + b{l=~"0|1"}`, `a{l="0"} + b{l="1"}`, `a{l="0"} * b{l="0"}`,
			`a{l="0"} @ end() + a`, `a + a{l="0"} @ end()`, `a{l="0"} @ 100.000 * a`, `a{l="0"} @ start() + a`, `a{l="0",m="1"} @ 100.000 offset 30s / a{l="0"}`,
			`sum(a{l="0"} @ end()) + sum(a)`, `a{l="0"} offset -30s + a`, `rate(a{l="0"}[1m] @ 100.000) + rate(a[1m])`, `a{l="0"} @ 45.000 + a @ 45.000`,
			`a{l="0"} @ 45.000 + a{m="1"} @ 100.000 + a`,
		} {
			for _, w := range []core.Window{ws[0], core.Instant(45000), core.Range(0, 45000, 12)} {
				if !emit(q, w) {
					return
				}
			}
		}
		// a repeated label name whose two matchers are written apart (a third matcher between
		// them), on one side of a cross-metric operator: what propagation and merging see
		// when the matchers have not been sorted first
		{
			asWritten = true
			lm := []string{`l="0"`, `l!="0"`, `l=~"0|1"`, `l!~"1"`, `l=""`}
			mm := []string{`m="1"`, `m!=""`, `m=~"0|1"`}
			for _, m1 := range lm {
				for _, m2 := range mm {
					for _, m3 := range lm {
						if m1 == m3 {
							continue
						}
						sel := "b{" + m1 + "," + m2 + "," + m3 + "}"
						for _, pos := range []string{`a + %s`, `%s + a`, `a{m="1"} * %s`, `%s - a{l!=""}`, `a{l=~"0|1",m!="",l!="1"} + %s`} {
							if !emit(fmt.Sprintf(pos, sel), ws[0]) {
								return
							}
						}
					}
				}
			}
			// and every two-matcher selector of the alphabet written in both orders
			al := matcherAlphabet()
			for _, m1 := range al {
				for _, m2 := range al {
					if m1 >= m2 {
						continue
					}
					for _, pos := range []string{`a + b{%s,%s}`, `a{%s,%s} + a`} {
						if !emit(fmt.Sprintf(pos, m2, m1), ws[0]) {
							return
						}
					}
				}
			}
			asWritten = false
		}
		// single selectors in unary positions
		for _, x := range selectorsUpTo("a", 2) {
			for _, pos := range []string{`%s`, `abs(%s)`, `rate(%s[1m])`, `sum by (l) (%s)`, `-%s`} {
				if !emit(fmt.Sprintf(pos, x), ws[0]) {
					return
				}
			}
		}
		// pairs: same metric and different metrics. In thorough the full 601^2 pairs
		// run for the same-metric case (where merging applies); cross-metric pairs use
		// <=1 matcher per selector.
		if c.Thorough() {
			for _, pos := range c09Positions {
				for _, x := range selA {
					for _, y := range selA {
						if !emit(fmt.Sprintf(pos, x, y), ws[0]) {
							return
						}
					}
				}
			}
		} else {
			one := selectorsUpTo("a", 1)
			two := selectorsUpTo("a", 2)
			for _, pos := range c09Positions {
				for _, x := range one {
					for _, y := range one {
						if !emit(fmt.Sprintf(pos, x, y), ws[0]) {
							return
						}
					}
				}
			}
			// <=2 matchers (duplicate keys included) against <=1 matcher, both orders
			for _, pos := range []string{`%s + %s`, `%s * on (l) %s`, `sum(%s) + sum(%s)`, `%s + scalar(%s)`, `rate(%s[1m]) + %s`} {
				for _, x := range two[len(one):] {
					for _, y := range one {
						if !emit(fmt.Sprintf(pos, x, y), ws[0]) {
							return
						}
						if !emit(fmt.Sprintf(pos, y, x), ws[0]) {
							return
						}
					}
				}
			}
		}
		b1 := selectorsUpTo("b", 1)
		a1 := selectorsUpTo("a", 1)
		for _, pos := range c09Positions {
			for _, x := range a1 {
				for _, y := range b1 {
					if !emit(fmt.Sprintf(pos, x, y), ws[0]) {
						return
					}
				}
			}
		}
		_ = selB
		// triples over a reduced alphabet
		tri := []string{`a`, `a{l="0"}`, `a{l=""}`, `a{l!="0"}`, `a{m=~"0|1"}`, `a{l="0",m="1"}`, `b`, `b{l="0"}`}
		for _, x := range tri {
			for _, y := range tri {
				for _, z := range tri {
					for _, pos := range []string{`%s + %s + %s`, `%s * on (l) (%s - ignoring (m) %s)`, `sum(%s) + sum(%s) / sum(%s)`, `%s + scalar(%s) * scalar(%s)`} {
						if !emit(fmt.Sprintf(pos, x, y, z), ws[0]) {
							return
						}
					}
				}
			}
		}
		// selectors with three matchers (where merging leaves two filters, and slices of
		// matchers have spare capacity) against the <=2-matcher selectors of a reduced alphabet
		red := []string{`l="0"`, `m="1"`, `l!=""`, `m=~"0|1"`, `z=""`, `l=~"0|1"`}
		var three, upto2 []string
		upto2 = append(upto2, "a")
		for i := range red {
			upto2 = append(upto2, "a{"+red[i]+"}")
			for j := i + 1; j < len(red); j++ {
				upto2 = append(upto2, "a{"+red[i]+","+red[j]+"}")
				for k := j + 1; k < len(red); k++ {
					three = append(three, "a{"+red[i]+","+red[j]+","+red[k]+"}")
				}
			}
		}
		bsel := []string{`b`, `b{l="0"}`, `b{m="1"}`, `b{l!=""}`, `b{z=""}`, `b{k=""}`, `b{k="",z=""}`}
		for _, x := range three {
			for _, y := range upto2 {
				for _, pos := range []string{`%s + %s`, `sum(%s) / sum(%s)`, `%s * on (l) %s`} {
					if !emit(fmt.Sprintf(pos, x, y), ws[0]) || !emit(fmt.Sprintf(pos, y, x), ws[0]) {
						return
					}
				}
				for _, z := range bsel {
					for _, pos := range []string{`sum(%s) / sum(%s * %s)`, `sum(%s) / sum(%s + %s)`, `%s + (%s - %s)`, `sum(%s * %s) / sum(%s)`} {
						var q string
						if strings.HasSuffix(pos, "sum(%s)") && strings.HasPrefix(pos, "sum(%s *") {
							q = fmt.Sprintf(pos, y, z, x)
						} else {
							q = fmt.Sprintf(pos, x, y, z)
						}
						if !emit(q, ws[0]) {
							return
						}
					}
				}
			}
		}
		// selectors that name the metric through a matcher on __name__ of every type (the
		// merge optimizer keys its candidates by the value of that matcher), alone, doubled,
		// and with one ordinary matcher; against named selectors and against each other
		var nameSel []string
		for _, op := range []string{"=", "!=", "=~", "!~"} {
			for _, v := range []string{"a", "b", "a|b"} {
				for _, extra := range []string{"", `,l="0"`, `,m="1"`, `,l!=""`} {
					nameSel = append(nameSel, fmt.Sprintf(`{__name__%s"%s"%s}`, op, v, extra))
				}
			}
		}
		nameSel = append(nameSel, `{__name__="a",__name__!="b"}`, `{__name__=~"a|b",__name__!="b"}`, `{__name__=~"a|b",__name__!="a",l="0"}`,
			`{__name__!="a",__name__!="b",l="0"}`, `{__name__=~"a|b",__name__=~".+",m="1"}`, `{__name__!~"b",__name__=~"a.*",l!=""}`)
		named := []string{`a`, `a{l="0"}`, `a{m="1"}`, `a{l="0",m="1"}`, `a{l!=""}`, `b`, `b{l="0"}`, `b{l!="",m="1"}`}
		namePos := []string{`count(%s) + count(%s)`, `sum by (l) (%s) / sum by (l) (%s)`, `count by (__name__) (%s) + on () group_left count(%s)`, `%s + scalar(count(%s))`}
		for _, x := range nameSel {
			for _, pos := range []string{`%s`, `count(%s)`, `sum by (l) (rate(%s[1m]))`} {
				if !emit(fmt.Sprintf(pos, x), ws[0]) {
					return
				}
			}
			for _, pos := range namePos {
				for _, y := range named {
					if !emit(fmt.Sprintf(pos, x, y), ws[0]) || !emit(fmt.Sprintf(pos, y, x), ws[0]) {
						return
					}
				}
				for _, y := range nameSel {
					if !emit(fmt.Sprintf(pos, x, y), ws[0]) {
						return
					}
				}
			}
		}
		c.Rep.Bounds["name_matcher_selectors"] = len(nameSel)
	})
}

// ---------------------------------------------------------------------------------
// C08: totality and fallback

type vocabItem struct {
	q    string
	kind string
}

// vocabulary builds one type-correct minimal instance of every construct of the parser.
func vocabulary() []vocabItem {
	var out []vocabItem
	var names []string
	for n := range parser.Functions {
		names = append(names, n)
	}
	sort.Strings(names)
	for _, n := range names {
		fn := parser.Functions[n]
		var args []string
		for _, at := range fn.ArgTypes {
			switch at {
			case parser.ValueTypeVector:
				args = append(args, "a")
			case parser.ValueTypeMatrix:
				args = append(args, "a[1m]")
			case parser.ValueTypeScalar:
				args = append(args, "1")
			case parser.ValueTypeString:
				args = append(args, `"l"`)
			}
		}
		if fn.Variadic != 0 {
			// also the shortest admissible form
			min := len(fn.ArgTypes) - 1
			if fn.Variadic > 0 {
				min = len(fn.ArgTypes) - fn.Variadic
			}
			if min < 0 {
				min = 0
			}
			short := args
			if min < len(args) {
				short = args[:min]
			}
			out = append(out, vocabItem{fmt.Sprintf("%s(%s)", n, strings.Join(short, ", ")), "func:" + n})
		}
		if n == "label_replace" {
			args = []string{"a", `"x"`, `"$1"`, `"l"`, `"(.*)"`}
		}
		if n == "label_join" {
			args = []string{"a", `"x"`, `"-"`, `"l"`, `"m"`}
		}
		out = append(out, vocabItem{fmt.Sprintf("%s(%s)", n, strings.Join(args, ", ")), "func:" + n})
	}
	for _, op := range []string{"sum", "min", "max", "avg", "group", "stddev", "stdvar", "count"} {
		out = append(out, vocabItem{op + "(a)", "agg:" + op}, vocabItem{op + " by (l) (a)", "agg:" + op}, vocabItem{op + " without (l) (a)", "agg:" + op})
	}
	out = append(out, vocabItem{`count_values("v", a)`, "agg:count_values"}, vocabItem{`topk(1, a)`, "agg:topk"}, vocabItem{`bottomk(1, a)`, "agg:bottomk"},
		vocabItem{`quantile(0.5, a)`, "agg:quantile"}, vocabItem{`count_values by (l) ("v", a)`, "agg:count_values"})
	for _, op := range []string{"+", "-", "*", "/", "%", "^", "==", "!=", ">", "<", ">=", "<=", "atan2"} {
		out = append(out, vocabItem{"a " + op + " b", "bin:" + op}, vocabItem{"a " + op + " on (l) b", "bin:" + op}, vocabItem{"a " + op + " ignoring (m) group_left b", "bin:" + op},
			vocabItem{"a " + op + " 2", "bin:" + op})
		if gen.CmpOps[op] {
			out = append(out, vocabItem{"a " + op + " bool b", "bin:" + op + " bool"}, vocabItem{"1 " + op + " bool 2", "bin:" + op + " bool"})
		} else {
			out = append(out, vocabItem{"1 " + op + " 2", "bin:" + op})
		}
	}
	for _, op := range []string{"and", "or", "unless"} {
		out = append(out, vocabItem{"a " + op + " b", "set:" + op}, vocabItem{"a " + op + " on (l) b", "set:" + op}, vocabItem{"a " + op + " ignoring (m) b", "set:" + op})
	}
	out = append(out,
		vocabItem{`a[1m:30s]`, "subquery"}, vocabItem{`rate(a[2m:30s])`, "subquery"}, vocabItem{`max_over_time(rate(a[1m])[2m:])`, "subquery"},
		vocabItem{`sum_over_time(a[2m:30s] offset 30s)`, "subquery"}, vocabItem{`sum_over_time(a[2m:30s] @ 100.000)`, "subquery"},
		vocabItem{`"str"`, "string"}, vocabItem{`a[1m]`, "matrix"}, vocabItem{`a[1m] offset 30s`, "matrix"},
		vocabItem{`a`, "selector"}, vocabItem{`a offset 30s`, "selector"}, vocabItem{`a @ 45.000`, "selector"}, vocabItem{`a @ start()`, "selector"}, vocabItem{`{l="0"}`, "selector"},
		vocabItem{`2`, "literal"}, vocabItem{`-a`, "unary"}, vocabItem{`+a`, "unary"}, vocabItem{`(a)`, "paren"}, vocabItem{`-(1)`, "unary"},
	)
	return out
}

// positions places an expression of the given type in every syntactic position.
func positions(x string) []string {
	t := gen.TypeOf(x)
	var out []string
	out = append(out, x)
	switch t {
	case parser.ValueTypeVector:
		// as function argument (native and non-native hosts)
		for _, h := range []string{"abs(%s)", "ceil(%s)", "clamp_min(%s, 1)", "clamp(%s, 0, 5)", "histogram_quantile(0.5, %s)", "scalar(%s)", "timestamp(%s)",
			"sort(%s)", "absent(%s)", `label_replace(%s, "x", "$1", "l", "(.*)")`, "round(%s)"} {
			out = append(out, fmt.Sprintf(h, x))
		}
		// as aggregation operand of every aggregation operator, and as its parameter
		for _, h := range []string{"sum(%s)", "sum by (l) (%s)", "min without (l) (%s)", "max(%s)", "avg(%s)", "count(%s)", "group(%s)", "stddev(%s)", "stdvar(%s)",
			"topk(1, %s)", "bottomk by (l) (1, %s)", "quantile(0.5, %s)", `count_values("v", %s)`,
			"topk(scalar(%s), a)", "quantile(scalar(%s), a)"} {
			out = append(out, fmt.Sprintf(h, x))
		}
		// either side of every class of binary operator
		for _, op := range []string{"+", "> bool", "==", "atan2", "and", "or", "unless", "* on (l) group_left"} {
			out = append(out, fmt.Sprintf("(%s) %s a", x, op), fmt.Sprintf("a %s (%s)", op, x))
		}
		out = append(out, "("+x+") + 1", "1 + ("+x+")", "("+x+")", "-("+x+")", "clamp_min(a, scalar("+x+"))", "sum(topk(1, "+x+")) + 1")
		// next to a narrower selector of the same metric (the default optimizers rewrite it
		// into a filter over the broader select before the fallback decision is taken)
		out = append(out, fmt.Sprintf(`(%s) + a{l="0"}`, x), fmt.Sprintf(`a{l="0"} or (%s)`, x))
	case parser.ValueTypeScalar:
		out = append(out, "vector("+x+")", "sum(vector("+x+"))", "topk("+x+", a)", "quantile("+x+", a)", "("+x+") + a", "a + ("+x+")", "("+x+")", "-("+x+")",
			"clamp_min(a, "+x+")", "clamp(a, "+x+", "+x+")", "histogram_quantile("+x+", a)", "("+x+") + 1", "1 > bool ("+x+")", "round(a, "+x+")")
	case parser.ValueTypeMatrix:
		out = append(out, "rate("+x+")", "sum(rate("+x+"))", "sum_over_time("+x+") + a")
	case parser.ValueTypeString:
		out = append(out, "label_replace(a, "+x+`, "$1", "l", "(.*)")`)
	}
	return out
}

func c08Once(q string, data []core.SeriesSpec, w core.Window) (ran, nontrivial bool, sym, det string) {
	core.CountPaths = true
	defer func() { core.CountPaths = false }()
	st := storeFor(&core.Case{Data: data})
	ref := core.RunRef(&core.Case{Q: q, Data: data, W: w, O: core.Opts{}}, st)
	if ref.CreateErr != "" {
		// the reference rejects the query at creation (e.g. a range vector in a range query)
		return false, false, "", ""
	}
	// fallback enabled: created and answered as the reference answers
	on := &core.Case{Q: q, Data: data, W: w, O: core.Opts{Optimizers: "none", Fallback: true}}
	o := core.RunEngine(on, st)
	if o.Res.CreateErr != "" {
		return true, false, "fallback-on:rejected", "the reference engine accepts the query; with fallback enabled creation fails: " + o.Res.CreateErr
	}
	if s, d := engineSymptom(o); s != "" {
		return true, false, s, d
	}
	if n := o.Counter["true"] + o.Counter["false"]; n != 1 {
		return true, false, "counter", fmt.Sprintf("query counter moved by %v for one created query (%v)", n, o.Counter)
	}
	if (o.Path == "fallback") != o.IsPromQuery {
		return true, false, "counter:wrong-path", fmt.Sprintf("counter says %s but the query object is %s", o.Path, o.QueryType)
	}
	// not bit-exact even on the fallback path: the reference engine itself is not
	// reproducible to the last bit (e.g. stdvar(a or b) varies between runs)
	if s, d := core.Diff(ref, o.Res, false); s != "" {
		if !(hasK(q) && tieEqual(ref, o.Res)) {
			if o.IsPromQuery {
				return true, true, "fallback-on:" + s, d
			}
			// a natively evaluated query: the same symptom classes as C01
			return true, true, s, d
		}
	}
	// fallback disabled: same answer, or rejected as unsupported / not implemented
	off := &core.Case{Q: q, Data: data, W: w, O: core.Opts{Optimizers: "none", Fallback: false}}
	f := core.RunEngine(off, st)
	if f.Res.CreateErr != "" {
		if !(f.ErrIs["unsupported"] || f.ErrIs["notimplemented"]) {
			return true, false, "fallback-off:unclassified-error", "rejected with an error that is neither ErrNotSupportedExpr nor ErrNotImplemented: " + f.Res.CreateErr
		}
		if !o.IsPromQuery {
			return true, false, "fallback-off:inconsistent", "rejected as unsupported with fallback disabled, but evaluated natively with fallback enabled"
		}
	} else {
		if o.IsPromQuery {
			return true, false, "fallback-on:unneeded", "created natively with fallback disabled, but fell back with fallback enabled"
		}
		if s, d := engineSymptom(f); s != "" {
			return true, false, s, d
		}
		if n := f.Counter["false"]; n != 1 || f.Counter["true"] != 0 {
			return true, false, "counter", fmt.Sprintf("fallback disabled: counter %v", f.Counter)
		}
		if s, d := core.Diff(o.Res, f.Res, false); s != "" && !(hasK(q) && tieEqual(o.Res, f.Res)) {
			return true, true, "fallback-off:" + s, "result differs from the one with fallback enabled: " + d
		}
	}
	// fallback enabled under the default and all optimizers: the same path, the same answer
	for _, opt := range []string{"", "all"} {
		oc := &core.Case{Q: q, Data: data, W: w, O: core.Opts{Optimizers: opt, Fallback: true}}
		oo := core.RunEngine(oc, st)
		name := opt
		if name == "" {
			name = "default"
		}
		if oo.Res.CreateErr != "" {
			return true, false, "fallback-on:rejected", fmt.Sprintf("with the %s optimizers and fallback enabled creation fails: %s", name, oo.Res.CreateErr)
		}
		if s, d := engineSymptom(oo); s != "" {
			return true, false, s, fmt.Sprintf("with the %s optimizers: %s", name, d)
		}
		if oo.IsPromQuery != o.IsPromQuery {
			return true, false, "fallback:depends-on-optimizers", fmt.Sprintf("query object is %s with the %s optimizers and %s without optimizers", oo.QueryType, name, o.QueryType)
		}
		if s, d := core.Diff(ref, oo.Res, false); s != "" && !(hasK(q) && tieEqual(ref, oo.Res)) {
			if oo.IsPromQuery {
				return true, true, "fallback-on:" + s, fmt.Sprintf("with the %s optimizers: %s", name, d)
			}
			return true, true, s, fmt.Sprintf("with the %s optimizers: %s", name, d)
		}
	}
	// the same two engines with a DebugWriter (every created plan is explained into it)
	for _, fb := range []bool{true, false} {
		dc := &core.Case{Q: q, Data: data, W: w, O: core.Opts{Optimizers: "none", Fallback: fb, Debug: true}}
		d := core.RunEngine(dc, st)
		want := o
		if !fb {
			want = f
		}
		if s, dd := engineSymptom(d); s != "" {
			return true, false, s, fmt.Sprintf("with a DebugWriter (fallback %v): %s", fb, dd)
		}
		if (d.Res.CreateErr != "") != (want.Res.CreateErr != "") || d.QueryType != want.QueryType || d.ErrIs["unsupported"] != want.ErrIs["unsupported"] || d.ErrIs["notimplemented"] != want.ErrIs["notimplemented"] {
			return true, false, "debug-writer:creation", fmt.Sprintf("with a DebugWriter (fallback %v) creation gives (%s, err=%q), without (%s, err=%q)", fb, d.QueryType, d.Res.CreateErr, want.QueryType, want.Res.CreateErr)
		}
		if d.Res.CreateErr == "" {
			if s, dd := core.Diff(want.Res, d.Res, false); s != "" && !(hasK(q) && tieEqual(want.Res, d.Res)) {
				return true, true, "debug-writer:" + s, "result differs with a DebugWriter: " + dd
			}
		}
	}
	// decided at creation, from the expression alone: a storage that panics on any access
	for _, fb := range []bool{true, false} {
		pc := &core.Case{Q: q, Data: data, W: w, O: core.Opts{Optimizers: "none", Fallback: fb}}
		path, err, pan := core.CreateOnly(pc)
		if pan != "" {
			return true, false, "creation-touches-storage", "query creation accessed the storage: " + pan
		}
		want := o
		if !fb {
			want = f
		}
		if (err != nil) != (want.Res.CreateErr != "") || (err == nil && path != want.QueryType) {
			return true, false, "creation-depends-on-storage", fmt.Sprintf("creation outcome over a panicking storage (%s, err=%v) differs from the one over the real storage (%s, err=%q)", path, err, want.QueryType, want.Res.CreateErr)
		}
	}
	return true, !ref.Failed() && (ref.NPoints() > 0 || ref.Type == "string"), "", ""
}

// c08Dist: the same obligations for a distributed engine whose remote engines have
// fallback disabled: what they cannot evaluate is known when the coordinator creates the
// query, and the coordinator falls back (or rejects) then.
func c08Dist(q string, data []core.SeriesSpec, w core.Window) (ran, nontrivial bool, sym, det string) {
	core.CountPaths = true
	defer func() { core.CountPaths = false }()
	st := storeFor(&core.Case{Data: data})
	ref := core.RunRef(&core.Case{Q: q, Data: data, W: w, O: core.Opts{}}, st)
	if ref.CreateErr != "" {
		return false, false, "", ""
	}
	dist := []int{0, 1, 0, 1, 0, 1, 0, 1}
	on := &core.Case{Q: q, Data: data, W: w, O: core.Opts{Optimizers: "none", Fallback: true, RemoteNoFallback: true}, NDist: 2, Dist: dist}
	o := core.RunEngine(on, st)
	if o.Res.CreateErr != "" {
		return true, false, "fallback-on:rejected", "distributed engine, fallback enabled on the coordinator: creation fails: " + o.Res.CreateErr
	}
	if s, d := engineSymptom(o); s != "" {
		return true, false, s, d
	}
	if n := o.Counter["true"] + o.Counter["false"]; n != 1 {
		return true, false, "counter", fmt.Sprintf("distributed engine: query counter moved by %v for one created query (%v)", n, o.Counter)
	}
	if (o.Path == "fallback") != o.IsPromQuery {
		return true, false, "counter:wrong-path", fmt.Sprintf("distributed engine: counter says %s but the query object is %s", o.Path, o.QueryType)
	}
	if s, d := core.Diff(ref, o.Res, false); s != "" && !(hasK(q) && tieEqual(ref, o.Res)) {
		if o.IsPromQuery {
			return true, true, "fallback-on:" + s, "distributed engine: " + d
		}
		return true, true, s, "distributed engine: " + d
	}
	off := &core.Case{Q: q, Data: data, W: w, O: core.Opts{Optimizers: "none", Fallback: false, RemoteNoFallback: true}, NDist: 2, Dist: dist}
	f := core.RunEngine(off, st)
	if f.Res.CreateErr != "" {
		if !(f.ErrIs["unsupported"] || f.ErrIs["notimplemented"]) {
			return true, false, "fallback-off:unclassified-error", "distributed engine: rejected with an error that is neither ErrNotSupportedExpr nor ErrNotImplemented: " + f.Res.CreateErr
		}
		if !o.IsPromQuery {
			return true, false, "fallback-off:inconsistent", "distributed engine: rejected as unsupported with fallback disabled, but evaluated natively with fallback enabled"
		}
	} else {
		if o.IsPromQuery {
			return true, false, "fallback-on:unneeded", "distributed engine: created natively with fallback disabled, but fell back with fallback enabled"
		}
		if s, d := engineSymptom(f); s != "" {
			return true, false, s, d
		}
		if s, d := core.Diff(o.Res, f.Res, false); s != "" && !(hasK(q) && tieEqual(o.Res, f.Res)) {
			return true, true, "fallback-off:" + s, "distributed engine: result differs from the one with fallback enabled: " + d
		}
	}
	return true, !ref.Failed() && ref.NPoints() > 0, "", ""
}

func init() {
	check.Replayers["enum:C08"] = func(f *check.Failure) (string, string) {
		if f.Case.NDist > 0 {
			_, _, s, d := c08Dist(f.Case.Q, f.Case.Data, f.Case.W)
			return s, d
		}
		_, _, s, d := c08Once(f.Case.Q, f.Case.Data, f.Case.W)
		return s, d
	}
	check.Register("C08/enum", func(c *check.Ctx) {
		vocab := vocabulary()
		qs := gen.NewSet()
		kinds := map[string]bool{}
		for _, v := range vocab {
			kinds[v.kind] = true
			for _, pq := range positions(v.q) {
				qs.Add(pq, 1)
			}
		}
		c.Rep.Transitions += qs.Transitions
		c.Rep.Bounds["vocabulary_constructs"] = len(kinds)
		c.Rep.Bounds["queries"] = len(qs.List)
		data := dataset("D1")
		ws := []core.Window{core.Instant(45000), core.Range(10000, 30000, 11)}
		if c.Thorough() {
			ws = append(ws, core.Range(0, 45000, 21), core.Instant(0), core.Range(400000, 30000, 2))
		}
		c.Rep.Bounds["windows"] = len(ws)
		for _, q := range qs.List {
			for _, w := range ws {
				c.Rep.Transitions++
				if !c.Mine() {
					continue
				}
				if c.Expired() {
					return
				}
				cs := &core.Case{Q: q, Data: data, W: w, O: core.Opts{Fallback: true}, Note: "D1"}
				if !c.Progress(cs) {
					continue
				}
				ran, nt, sym, det := c08Once(q, data, w)
				if !ran {
					c.Rep.Outcomes["reference-rejects"]++
					continue
				}
				c.Rep.States++
				c.Rep.Evaluations += 5
				c.Rep.Traces += 5
				if nt {
					c.Rep.Nontrivial++
				}
				if c.Shard == 0 {
					c.Sample(map[string]any{"q": q, "window": w})
				}
				if sym == "" {
					c.Rep.Outcomes["ok"]++
					continue
				}
				if _, _, s2, _ := c08Once(q, data, w); s2 == "" {
					c.Rep.Extra["unreproduced_failures"]++
					continue
				}
				c.Rep.Outcomes["diff:"+sym]++
				c.Fail(check.Failure{Prop: "C08", Kind: "enum", Sub: "C08", Symptom: sym, Detail: det, Case: cs})
			}
		}
		// the same vocabulary and positions through a distributed engine over two remote
		// engines that have fallback disabled
		for _, q := range qs.List {
			w := ws[1]
			c.Rep.Transitions++
			if !c.Mine() {
				continue
			}
			if c.Expired() {
				return
			}
			cs := &core.Case{Q: q, Data: data, W: w, O: core.Opts{Optimizers: "none", Fallback: true, RemoteNoFallback: true}, NDist: 2, Dist: []int{0, 1, 0, 1, 0, 1, 0, 1}, Note: "D1 distributed"}
			if !c.Progress(cs) {
				continue
			}
			ran, nt, sym, det := c08Dist(q, data, w)
			if !ran {
				continue
			}
			c.Rep.States++
			c.Rep.Evaluations += 2
			c.Rep.Traces += 2
			if nt {
				c.Rep.Nontrivial++
			}
			if sym == "" {
				c.Rep.Outcomes["ok"]++
				continue
			}
			if _, _, s2, _ := c08Dist(q, data, w); s2 == "" {
				c.Rep.Extra["unreproduced_failures"]++
				continue
			}
			c.Rep.Outcomes["diff:"+sym]++
			c.Fail(check.Failure{Prop: "C08", Kind: "enum", Sub: "C08", Symptom: sym, Detail: det, Case: cs})
		}
	})
}
