// Package findings reads /verif/findings/known_findings.json (never written at run
// time) and decides whether a failing case is explained by an open finding.
package findings

import (
	"encoding/json"
	"os"
	"strings"
)

type Finding struct {
	ID       string          `json:"id"`
	Property string          `json:"property"`
	Also     []string        `json:"also,omitempty"`
	Status   string          `json:"status"` // open | fixed
	Commit   string          `json:"commit,omitempty"`
	Title    string          `json:"title"`
	Scope    []string        `json:"scope"`             // features that must all be present
	NotScope []string        `json:"not_scope,omitempty"` // features that must be absent
	Symptom  []string        `json:"symptom"`           // symptom classes (prefix match)
	Witness  json.RawMessage `json:"witness,omitempty"`
	Note     string          `json:"note,omitempty"`
}

type Set struct {
	Findings []Finding `json:"findings"`
}

func Load(path string) (*Set, error) {
	b, err := os.ReadFile(path)
	if err != nil {
		if os.IsNotExist(err) {
			return &Set{}, nil
		}
		return nil, err
	}
	s := &Set{}
	if err := json.Unmarshal(b, s); err != nil {
		return nil, err
	}
	return s, nil
}

// Match returns the open finding that explains a failure of prop with the given
// features and symptom, or nil.
func (s *Set) Match(prop string, features []string, symptom string) *Finding {
	if s == nil {
		return nil
	}
	fs := map[string]bool{}
	for _, f := range features {
		fs[f] = true
	}
next:
	for i := range s.Findings {
		f := &s.Findings[i]
		if f.Status != "open" {
			continue
		}
		ok := f.Property == prop
		for _, a := range f.Also {
			if a == prop {
				ok = true
			}
		}
		if !ok {
			continue
		}
		for _, sc := range f.Scope {
			if !fs[sc] {
				continue next
			}
		}
		for _, sc := range f.NotScope {
			if fs[sc] {
				continue next
			}
		}
		for _, sy := range f.Symptom {
			if sy == "*" || symptom == sy || strings.HasPrefix(symptom, sy) {
				return f
			}
		}
	}
	return nil
}
