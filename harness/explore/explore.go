// Package explore is E-SCHED: stateless depth-first search over goroutine schedules of
// the real (instrumented) engine with iterative deviation bounding, plus the outer
// enumeration of environment-event positions (cancellation before scheduling step k).
package explore

import (
	"verif/harness/mstore"
	"context"
	"encoding/json"
	"errors"
	"fmt"
	"hash/fnv"
	"sort"

	"github.com/prometheus/prometheus/promql"

	"github.com/thanos-community/promql-engine/verifshim"
	"github.com/thanos-community/promql-engine/verifshim/opmon"

	"verif/harness/core"
)

// Scenario is a small sharp driver: one or two queries on one engine.
type Scenario struct {
	Name  string     `json:"name"`
	Case  core.Case  `json:"case"`
	Two   *core.Case `json:"two,omitempty"` // second query run concurrently on the same engine and storage (C12)
	Event string     `json:"event,omitempty"` // "" | ctx-cancel | query-cancel | query-close
	// PreCancel: the context is already cancelled when Exec starts.
	PreCancel   bool `json:"pre_cancel,omitempty"`
	PoolPoints  bool `json:"pool_points,omitempty"`
	YieldPoints bool `json:"yield_points,omitempty"`
	StoreYield  bool `json:"store_yield,omitempty"`
	// StoreCtx: the storage fails every callback with the context's error once cancelled.
	StoreCtx bool `json:"store_ctx,omitempty"`
	// Delay: deviations are delays (verifshim.RunOpts.Delay) instead of single preemptions.
	Delay bool `json:"delay,omitempty"`
	// DistFaults: faults of the stores of the remote engines (by engine index).
	DistFaults map[int][]mstore.Fault `json:"dist_faults,omitempty"`
}

// Dev is one deviation from the default schedule.
type Dev struct {
	Step int `json:"step"`
	Alt  int `json:"alt"`
}

// Sched identifies one execution completely.
type Sched struct {
	Devs      []Dev `json:"devs"`
	EventStep int   `json:"event_step"` // -1: no event
}

// Obs is what one controlled execution produced.
type Obs struct {
	Res        *core.Result
	Res2       *core.Result
	ExecErr    error
	Run        verifshim.RunResult
	Panics     []verifshim.PanicRec
	Mon        []opmon.Violation
	WF         []string
	CancelRan  bool // the injected event really invoked a cancel function before Exec returned
	EventAfter bool // the event fired only after Exec had returned
	OpenAtRet  int
	Opens      int
	Closes     int
	Fired      []string // storage faults that fired
}

func (o *Obs) OutcomeKey() string {
	h := fnv.New64a()
	b, _ := json.Marshal(o.Res)
	h.Write(b)
	if o.Res2 != nil {
		b, _ = json.Marshal(o.Res2)
		h.Write(b)
	}
	return fmt.Sprintf("%016x/dl=%v/blk=%d/p=%d", h.Sum64(), o.Run.Deadlock, len(o.Run.Blocked), len(o.Panics))
}

// RunOnce executes the scenario once under the given schedule.
func RunOnce(sc *Scenario, s Sched) *Obs {
	verifshim.PoolPoints = sc.PoolPoints
	verifshim.YieldPoints = sc.YieldPoints || sc.StoreYield
	core.SetProcs(sc.Case.O.Procs)
	pool := sc.Case.O.Pool
	if pool == "" || pool == "real" {
		pool = "lifo"
	}
	core.SetPool(pool)
	obs := &Obs{}
	st, err := core.BuildStore(sc.Case.Data)
	if err != nil {
		panic(err)
	}
	st.Faults = sc.Case.Faults
	st.HonorCtx = sc.StoreCtx
	if sc.StoreYield {
		st.Hook = verifshim.Yield
	}
	opmon.Take()
	verifshim.TakePanics()
	bc := sc.Case
	bc.StoreCtx = sc.StoreCtx
	core.DistFaults = sc.DistFaults
	eng, remoteStores, err := core.BuildEngine(&bc, nil)
	core.DistFaults = nil
	if err != nil {
		panic(err)
	}
	if sc.StoreYield {
		for _, rs := range remoteStores {
			rs.Hook = verifshim.Yield
		}
	}
	snapshotAll := func() {
		st.OpenAtReturnSnapshot()
		for _, rs := range remoteStores {
			rs.OpenAtReturnSnapshot()
		}
	}
	q, err := core.NewQuery(eng, st, &sc.Case)
	if err != nil {
		obs.Res = &core.Result{Type: "none", CreateErr: err.Error()}
		return obs
	}
	var q2 promql.Query
	if sc.Two != nil {
		q2, err = core.NewQuery(eng, st, sc.Two)
		if err != nil {
			panic("second query: " + err.Error())
		}
	}
	ctx, cancel := context.WithCancel(context.Background())
	defer cancel()
	st.Cancel = cancel
	for _, rs := range remoteStores {
		rs.Cancel = cancel
	}
	if sc.PreCancel {
		cancel()
	}
	execReturned := false
	ro := verifshim.RunOpts{Devs: map[int]int{}, EventStep: -1, Delay: sc.Delay}
	for _, d := range s.Devs {
		ro.Devs[d.Step] = d.Alt
	}
	if sc.Event != "" && s.EventStep >= 0 {
		ro.EventStep = s.EventStep
		ro.EventFn = func() {
			if execReturned {
				obs.EventAfter = true
			}
			before := verifshim.Cancels()
			switch sc.Event {
			case "ctx-cancel":
				cancel()
				if !execReturned {
					obs.CancelRan = true
				}
				return
			case "query-cancel":
				q.Cancel()
			case "query-close":
				q.Close()
			}
			if verifshim.Cancels() > before && !execReturned {
				obs.CancelRan = true
			}
		}
	}
	var res, res2 *promql.Result
	obs.Run = verifshim.Run(ro, func() {
		if q2 != nil {
			done := make(chan struct{}, 1)
			verifshim.Go(func() {
				res2 = q2.Exec(ctx)
				verifshim.Send(done, struct{}{})
			})
			res = q.Exec(ctx)
			execReturned = true
			snapshotAll()
			verifshim.Recv(done)
			q2.Close()
			q.Close()
			return
		}
		res = q.Exec(ctx)
		execReturned = true
		st.OpenAtReturnSnapshot()
		q.Close()
	})
	if res != nil {
		obs.ExecErr = res.Err
		obs.Res = core.Canon(res)
		if res.Err == nil {
			obs.WF = wellFormed(res, &sc.Case)
		}
	} else {
		obs.Res = &core.Result{Type: "none", Err: "Exec did not return"}
	}
	if res2 != nil {
		obs.Res2 = core.Canon(res2)
	}
	obs.Panics = verifshim.TakePanics()
	obs.Mon = opmon.Take()
	obs.OpenAtRet = st.OpenAtReturn
	obs.Opens, obs.Closes = st.Opens, st.Closes
	obs.Fired = st.Fired
	for _, rs := range remoteStores {
		obs.OpenAtRet += rs.OpenAtReturn
		obs.Opens += rs.Opens
		obs.Closes += rs.Closes
		obs.Fired = append(obs.Fired, rs.Fired...)
	}
	return obs
}

func wellFormed(res *promql.Result, c *core.Case) []string {
	defer func() { recover() }()
	return core.WellFormedQ(res, c)
}

// Failure is one execution on which an oracle failed.
type Failure struct {
	Symptom string `json:"symptom"`
	Detail  string `json:"detail"`
	Sched   Sched  `json:"sched"`
}

// Stats of one exploration.
type Stats struct {
	Executions  int64            `json:"executions"`
	Steps       int64            `json:"steps"`
	ChoicePts   int64            `json:"choice_points"`
	MaxLen      int              `json:"max_len"`
	MaxThreads  int              `json:"max_threads"`
	Outcomes    map[string]int64 `json:"outcomes"`
	NonDefault  int64            `json:"non_default_schedules"`
	Bound       int              `json:"bound"`
	EventsTried int              `json:"event_positions"`
	Aborted     string           `json:"aborted,omitempty"`
}

// ErrNondeterminism: replaying a prefix did not reproduce its trace.
var ErrNondeterminism = errors.New("HARNESS-NONDETERMINISM")

// Explorer runs the bounded DFS.
type Explorer struct {
	Sc      *Scenario
	D       int
	Shard   int
	NShards int
	// Check is the oracle for one execution; it returns a symptom ("" = fine).
	Check    func(o *Obs, s Sched) (symptom, detail string)
	MaxFail  int
	Deadline func() bool // true = stop now (internal deadline)

	Stats    Stats
	Failures []Failure
	FailCnt  map[string]int64
	ordinal  int
	err      error
}

func (e *Explorer) fail(sym, det string, s Sched) {
	if e.FailCnt == nil {
		e.FailCnt = map[string]int64{}
	}
	e.FailCnt[sym]++
	if len(e.Failures) < e.MaxFail {
		cp := Sched{EventStep: s.EventStep, Devs: append([]Dev(nil), s.Devs...)}
		e.Failures = append(e.Failures, Failure{Symptom: sym, Detail: det, Sched: cp})
	}
}

// Explore enumerates every schedule with at most D deviations for one event position
// (-1 = no event). It returns the root observation.
func (e *Explorer) Explore(eventStep int) (*Obs, error) {
	if e.Stats.Outcomes == nil {
		e.Stats.Outcomes = map[string]int64{}
	}
	if e.MaxFail == 0 {
		e.MaxFail = 20
	}
	if e.NShards == 0 {
		e.NShards = 1
	}
	e.Stats.Bound = e.D
	e.ordinal = 0
	root := e.rec(Sched{EventStep: eventStep}, nil, -1)
	return root, e.err
}

func (e *Explorer) rec(s Sched, parent []verifshim.Step, devStep int) *Obs {
	if e.err != nil || (e.Deadline != nil && e.Deadline()) {
		if e.err == nil && e.Stats.Aborted == "" {
			e.Stats.Aborted = "internal deadline"
		}
		return nil
	}
	o := RunOnce(e.Sc, s)
	tr := o.Run.Trace
	countIt := len(s.Devs) > 0 || e.Shard == 0
	if countIt {
		e.Stats.Executions++
		e.Stats.Steps += int64(len(tr))
		if len(s.Devs) > 0 {
			e.Stats.NonDefault++
		}
		e.Stats.Outcomes[o.OutcomeKey()]++
	}
	if len(tr) > e.Stats.MaxLen {
		e.Stats.MaxLen = len(tr)
	}
	if o.Run.Threads > e.Stats.MaxThreads {
		e.Stats.MaxThreads = o.Run.Threads
	}
	// determinism: the prefix before the newest deviation must replay exactly
	if parent != nil {
		if o.Run.BadChoice != "" || len(tr) <= devStep {
			e.err = fmt.Errorf("%w: %s (sched %v)", ErrNondeterminism, o.Run.BadChoice, s)
			return o
		}
		for i := 0; i < devStep; i++ {
			if tr[i] != parent[i] {
				e.err = fmt.Errorf("%w: step %d replayed as %+v, was %+v (sched %v)", ErrNondeterminism, i, tr[i], parent[i], s)
				return o
			}
		}
		if tr[devStep].NAlt != parent[devStep].NAlt {
			e.err = fmt.Errorf("%w: step %d has %d candidates, had %d (sched %v)", ErrNondeterminism, devStep, tr[devStep].NAlt, parent[devStep].NAlt, s)
			return o
		}
	}
	if o.Run.Unsupp != "" {
		e.Stats.Aborted = "unsupported construct: " + o.Run.Unsupp
		e.err = errors.New("unsupported")
		return o
	}
	if countIt && e.Check != nil {
		if sym, det := e.Check(o, s); sym != "" {
			e.fail(sym, det, s)
		}
	}
	if len(s.Devs) >= e.D {
		return o
	}
	for i := devStep + 1; i < len(tr); i++ {
		n := int(tr[i].NAlt)
		if n <= 1 {
			continue
		}
		if countIt {
			e.Stats.ChoicePts++
		}
		for alt := 1; alt < n; alt++ {
			if len(s.Devs) == 0 {
				e.ordinal++
				if e.ordinal%e.NShards != e.Shard {
					continue
				}
			}
			child := Sched{EventStep: s.EventStep, Devs: append(append([]Dev(nil), s.Devs...), Dev{Step: i, Alt: alt})}
			e.rec(child, tr, i)
			if e.err != nil {
				return o
			}
		}
	}
	return o
}

// SortedOutcomes for reporting.
func (s *Stats) SortedOutcomes() []string {
	var out []string
	for k, v := range s.Outcomes {
		out = append(out, fmt.Sprintf("%s x%d", k, v))
	}
	sort.Strings(out)
	return out
}
