// Command vcheck is the driver: it rebuilds the instrumented worker from /repo's
// current working tree, runs the shards of every sub-check of a property, merges their
// reports, writes /verif/evidence/<id>.json and prints KNOWN-FINDING / VIOLATION lines.
//
//	vcheck run <PROP> --tier quick|thorough
//	vcheck replay <file>
//	vcheck build
package main

import (
	"bytes"
	"crypto/sha256"
	"encoding/hex"
	"encoding/json"
	"fmt"
	"io"
	"os"
	"os/exec"
	"path/filepath"
	"runtime"
	"sort"
	"strconv"
	"strings"
	"sync"
	"syscall"
	"time"

	"verif/harness/plan"
)

// repo is the tree under test. Registered commands always use /repo; VERIF_REPO exists
// only so that a seeded change can be tried on a scratch worktree while a long run is
// using /repo (evidence and replays of such a run go to the build directory).
var repo = func() string {
	if r := os.Getenv("VERIF_REPO"); r != "" {
		return r
	}
	return "/repo"
}()

// altMod returns the -modfile argument that points the harness module at repo.
func altMod(dir string) []string {
	if repo == "/repo" {
		return nil
	}
	b, err := os.ReadFile(filepath.Join(verif, "harness", "go.mod"))
	if err != nil {
		die(2, "%v", err)
	}
	os.WriteFile(filepath.Join(dir, "alt.mod"), []byte(strings.Replace(string(b), "=> /repo", "=> "+repo, 1)), 0o644)
	sum, _ := os.ReadFile(filepath.Join(verif, "harness", "go.sum"))
	os.WriteFile(filepath.Join(dir, "alt.sum"), sum, 0o644)
	return []string{"-modfile=" + filepath.Join(dir, "alt.mod")}
}

// outRoot is where evidence and replays are written.
func outRoot() string {
	if repo == "/repo" {
		return verif
	}
	d := filepath.Join(verif, ".build", "alt-out")
	os.MkdirAll(d, 0o755)
	return d
}

// verif is the root of the verification tree: the parent of the directory holding this
// executable (so that a snapshot of /verif elsewhere works on its own files).
var verif = func() string {
	if r := os.Getenv("VERIF_ROOT"); r != "" {
		return r
	}
	exe, err := os.Executable()
	if err != nil {
		return "/verif"
	}
	return filepath.Dir(filepath.Dir(exe))
}()

var goEnv = []string{"GOFLAGS=-mod=mod", "GOPROXY=off", "GOSUMDB=off", "GOTOOLCHAIN=local"}

func die(code int, f string, a ...any) {
	fmt.Fprintf(os.Stderr, "vcheck: "+f+"\n", a...)
	os.Exit(code)
}

func main() {
	if len(os.Args) < 2 {
		die(2, "usage: vcheck run <PROP> --tier quick|thorough | replay <file> | build")
	}
	switch os.Args[1] {
	case "build":
		b := ensureBuild(false)
		fmt.Println(b)
	case "run":
		if len(os.Args) < 3 {
			die(2, "run needs a property id")
		}
		prop := os.Args[2]
		tier := os.Getenv("VERIF_TIER")
		for i := 3; i < len(os.Args); i++ {
			if os.Args[i] == "--tier" && i+1 < len(os.Args) {
				tier = os.Args[i+1]
			}
		}
		if tier == "" {
			tier = "quick"
		}
		os.Exit(run(prop, tier))
	case "replay":
		if len(os.Args) < 3 {
			die(2, "replay needs a file")
		}
		b := ensureBuild(false)
		cmd := exec.Command(filepath.Join(b, "vworker"), "-findings", filepath.Join(verif, "findings", "known_findings.json"), "-replay", os.Args[2], "-mode", replayMode(os.Args[2]))
		cmd.Stdout, cmd.Stderr = os.Stdout, os.Stderr
		if err := cmd.Run(); err != nil {
			if ee, ok := err.(*exec.ExitError); ok {
				os.Exit(ee.ExitCode())
			}
			die(2, "%v", err)
		}
	default:
		die(2, "unknown command %s", os.Args[1])
	}
}

func replayMode(path string) string {
	b, _ := os.ReadFile(path)
	var f struct {
		Kind string `json:"kind"`
	}
	json.Unmarshal(b, &f)
	if f.Kind == "sched" || f.Kind == "sched-root" {
		return "controlled"
	}
	return "free"
}

// treeHash covers every file that can influence the build of /repo and of the harness.
func treeHash() string {
	h := sha256.New()
	var files []string
	walk := func(root string, skip func(string) bool) {
		filepath.Walk(root, func(p string, fi os.FileInfo, err error) error {
			if err != nil {
				return nil
			}
			if fi.IsDir() {
				n := fi.Name()
				if n == ".git" || n == ".build" || n == "bin" || (skip != nil && skip(p)) {
					return filepath.SkipDir
				}
				return nil
			}
			if strings.HasSuffix(p, ".go") || strings.HasSuffix(p, "go.mod") || strings.HasSuffix(p, "go.sum") {
				files = append(files, p)
			}
			return nil
		})
	}
	walk(repo, nil)
	walk(filepath.Join(verif, "harness"), nil)
	walk(filepath.Join(verif, "shim"), nil)
	walk(filepath.Join(verif, "instr"), nil)
	sort.Strings(files)
	for _, f := range files {
		b, err := os.ReadFile(f)
		if err != nil {
			continue
		}
		fmt.Fprintf(h, "%s\x00%d\x00", f, len(b))
		h.Write(b)
	}
	return hex.EncodeToString(h.Sum(nil))[:16]
}

func runCmd(dir string, env []string, name string, args ...string) (string, error) {
	cmd := exec.Command(name, args...)
	cmd.Dir = dir
	cmd.Env = append(os.Environ(), env...)
	var buf bytes.Buffer
	cmd.Stdout, cmd.Stderr = &buf, &buf
	err := cmd.Run()
	return buf.String(), err
}

// ensureBuild instruments and builds the current tree (once per tree hash).
func ensureBuild(needRace bool) string {
	os.MkdirAll(filepath.Join(verif, ".build"), 0o755)
	lock, err := os.OpenFile(filepath.Join(verif, ".build", "lock"), os.O_CREATE|os.O_RDWR, 0o644)
	if err != nil {
		die(2, "lock: %v", err)
	}
	defer lock.Close()
	syscall.Flock(int(lock.Fd()), syscall.LOCK_EX)
	defer syscall.Flock(int(lock.Fd()), syscall.LOCK_UN)

	h := treeHash()
	dir := filepath.Join(verif, ".build", h)
	instr := filepath.Join(verif, "bin", "instr")
	if _, err := os.Stat(instr); err != nil {
		if out, err := runCmd(filepath.Join(verif, "instr"), goEnv, "go", "build", "-o", instr, "."); err != nil {
			die(2, "building the instrumenter failed:\n%s", out)
		}
	}
	if _, err := os.Stat(filepath.Join(dir, "vworker")); err != nil {
		os.RemoveAll(dir)
		os.MkdirAll(dir, 0o755)
		if out, err := runCmd(verif, goEnv, instr, "-repo", repo, "-shim", filepath.Join(verif, "shim"), "-out", dir); err != nil {
			os.RemoveAll(dir)
			die(2, "instrumenting /repo failed (does it compile?):\n%s", out)
		}
		if out, err := runCmd(filepath.Join(verif, "harness"), goEnv, "go", append(append([]string{"build"}, altMod(dir)...), "-overlay", filepath.Join(dir, "overlay.json"),
			"-o", filepath.Join(dir, "vworker"), "./cmd/vworker")...); err != nil {
			os.RemoveAll(dir)
			die(2, "building the instrumented worker failed:\n%s", out)
		}
		gcBuilds(h)
	}
	if needRace {
		if _, err := os.Stat(filepath.Join(dir, "vrace")); err != nil {
			if out, err := runCmd(filepath.Join(verif, "harness"), append(goEnv, "CGO_ENABLED=1"), "go", append(append([]string{"build"}, altMod(dir)...), "-race", "-overlay",
				filepath.Join(dir, "overlay_shimonly.json"), "-o", filepath.Join(dir, "vrace"), "./cmd/vworker")...); err != nil {
				die(2, "building the race worker failed:\n%s", out)
			}
		}
	}
	return dir
}

// gcKeep is the number of build directories kept besides the current one (more when
// several scratch trees are being checked side by side).
var gcKeep = func() int {
	if repo != "/repo" {
		return 8
	}
	return 1
}()

// gcBuilds keeps the most recent build directories.
func gcBuilds(keep string) {
	ents, _ := os.ReadDir(filepath.Join(verif, ".build"))
	type e struct {
		name string
		mod  time.Time
	}
	var ds []e
	for _, x := range ents {
		if !x.IsDir() || x.Name() == keep || x.Name() == "alt-out" {
			continue
		}
		fi, err := x.Info()
		if err == nil {
			ds = append(ds, e{x.Name(), fi.ModTime()})
		}
	}
	sort.Slice(ds, func(i, j int) bool { return ds[i].mod.After(ds[j].mod) })
	for i, d := range ds {
		if i >= gcKeep {
			os.RemoveAll(filepath.Join(verif, ".build", d.name))
		}
	}
}

// ---- reports (mirror of check.Report; the driver does not import engine code)

type Failure struct {
	Prop     string          `json:"property"`
	Kind     string          `json:"kind"`
	Symptom  string          `json:"symptom"`
	Detail   string          `json:"detail"`
	Case     json.RawMessage `json:"case,omitempty"`
	Scenario json.RawMessage `json:"scenario,omitempty"`
	Sched    json.RawMessage `json:"sched,omitempty"`
	History  json.RawMessage `json:"history,omitempty"`
	Features []string        `json:"features,omitempty"`
	Sub      string          `json:"sub,omitempty"`
}

type KnownHit struct {
	ID      string   `json:"id"`
	Title   string   `json:"title"`
	Count   int64    `json:"count"`
	Witness *Failure `json:"witness"`
}

type Report struct {
	Prop        string               `json:"property"`
	Shard       int                  `json:"shard"`
	Evaluations int64                `json:"evaluations"`
	States      int64                `json:"states"`
	Transitions int64                `json:"transitions"`
	Traces      int64                `json:"traces_validated_against_impl"`
	Nontrivial  int64                `json:"distinct_nontrivial"`
	Exhaustive  bool                 `json:"exhaustive"`
	Notes       []string             `json:"notes,omitempty"`
	Outcomes    map[string]int64     `json:"outcomes,omitempty"`
	Known       map[string]*KnownHit `json:"known,omitempty"`
	Viol        []Failure            `json:"violations,omitempty"`
	ViolCount   int64                `json:"violation_count"`
	Samples     []json.RawMessage    `json:"samples,omitempty"`
	Extra       map[string]int64     `json:"extra,omitempty"`
	Bounds      map[string]any       `json:"bounds,omitempty"`
	HarnessErr  string               `json:"harness_error,omitempty"`
	WallS       float64              `json:"wall_s"`
}

type subResult struct {
	sub     plan.Sub
	reports []*Report
	crashes []Failure
	herr    string
	overrun int
}

func run(prop, tier string) int {
	subs := plan.Subs(prop)
	if len(subs) == 0 {
		die(2, "no check registered for %s", prop)
	}
	t0 := time.Now()
	needRace := false
	for _, s := range subs {
		if s.Mode == "race" {
			needRace = true
		}
	}
	build := ensureBuild(needRace)
	seed, _ := strconv.ParseInt(os.Getenv("VERIF_SEED"), 10, 64)
	tmp, err := os.MkdirTemp("", "vcheck-"+prop+"-")
	if err != nil {
		die(2, "%v", err)
	}
	defer os.RemoveAll(tmp)

	var results []*subResult
	for _, s := range subs {
		results = append(results, runSub(build, tmp, s, tier, seed))
	}
	return merge(prop, tier, seed, results, time.Since(t0))
}

func runSub(build, tmp string, s plan.Sub, tier string, seed int64) *subResult {
	n := s.Shards
	if n == 0 {
		n = runtime.NumCPU()
	}
	budget := s.QuickS
	if tier == "thorough" {
		budget = s.ThorS
	}
	bin := filepath.Join(build, "vworker")
	if s.Mode == "race" {
		bin = filepath.Join(build, "vrace")
	}
	res := &subResult{sub: s, reports: make([]*Report, n)}
	var wg sync.WaitGroup
	var mu sync.Mutex
	for i := 0; i < n; i++ {
		wg.Add(1)
		go func(i int) {
			defer wg.Done()
			out := filepath.Join(tmp, fmt.Sprintf("%s-%d.json", strings.ReplaceAll(s.Name, "/", "_"), i))
			attempt := 0
			for {
				cmd := exec.Command(bin, "-findings", filepath.Join(verif, "findings", "known_findings.json"), "-check", s.Name, "-tier", tier, "-shard", strconv.Itoa(i), "-nshards", strconv.Itoa(n),
					"-seed", strconv.FormatInt(seed, 10), "-out", out, "-mode", s.Mode, "-budget", strconv.Itoa(budget),
					"-skipfile", out+".skip")
				var stderr bytes.Buffer
				cmd.Stderr = &stderr
				cmd.Stdout = io.Discard
				if s.Mode == "race" {
					cmd.Env = append(os.Environ(), "GORACE=halt_on_error=0 exitcode=0 log_path="+out+".race")
				}
				killed := false
				timer := time.AfterFunc(time.Duration(3*budget+600)*time.Second, func() { killed = true; cmd.Process.Kill() })
				err := cmd.Run()
				timer.Stop()
				if killed {
					// the machine is too loaded for this shard to finish: not a verdict
					mu.Lock()
					res.overrun++
					mu.Unlock()
					return
				}
				b, rerr := os.ReadFile(out)
				if s.Mode == "race" {
					if logs, _ := filepath.Glob(out + ".race.*"); len(logs) > 0 {
						rep, _ := os.ReadFile(logs[0])
						txt := string(rep)
						if len(txt) > 6000 {
							txt = txt[:6000] + "\n..."
						}
						mu.Lock()
						res.crashes = append(res.crashes, Failure{Prop: s.Name[:3], Kind: "race", Symptom: "data-race:" + raceSite(txt), Sub: s.Name, Detail: txt})
						mu.Unlock()
						for _, l := range logs {
							os.Remove(l)
						}
					}
				}
				if err == nil && rerr == nil {
					r := &Report{}
					if jerr := json.Unmarshal(b, r); jerr == nil {
						mu.Lock()
						res.reports[i] = r
						mu.Unlock()
						return
					}
				}
				// the worker died: attribute the crash to the case in progress
				prog, _ := os.ReadFile(out + ".progress")
				tail := stderr.String()
				if len(tail) > 3000 {
					tail = tail[:1500] + "\n...\n" + tail[len(tail)-1500:]
				}
				mu.Lock()
				if ee, ok := err.(*exec.ExitError); ok && ee.ExitCode() == 2 && len(prog) == 0 {
					full := stderr.String()
					if strings.Contains(full, "fatal error: concurrent map") && strings.Contains(full, "github.com/thanos-community/promql-engine/") {
						// the Go runtime found two goroutines in one map, with engine code on the
						// stack: the process of an embedding application would have died the same way
						res.crashes = append(res.crashes, Failure{Prop: s.Name[:3], Kind: "crash", Symptom: "process-death:concurrent map access in " + raceSite(full), Sub: s.Name, Detail: tail})
						mu.Unlock()
						return
					}
					res.herr = "worker failed: " + tail
					mu.Unlock()
					return
				}
				// A worker that was killed by the OS (SIGKILL, no output: typically the kernel's
				// out-of-memory killer on an overloaded machine) is no verdict by itself: the
				// case in progress is re-run alone in a fresh process; only if that dies as
				// well it is the case's doing.
				if ee, ok := err.(*exec.ExitError); ok && tail == "" {
					if ws, ok := ee.Sys().(syscall.WaitStatus); ok && ws.Signaled() && ws.Signal() == syscall.SIGKILL {
						if !diesAlone(bin, s, prog, out) {
							res.overrun++
							if len(bytes.TrimRight(prog, "\x00")) > 0 {
								sf, _ := os.OpenFile(out+".skip", os.O_CREATE|os.O_APPEND|os.O_WRONLY, 0o644)
								sf.Write(append(bytes.TrimRight(prog, "\x00"), '\n'))
								sf.Close()
							}
							mu.Unlock()
							attempt++
							if attempt >= 3 {
								return
							}
							continue
						}
					}
				}
				if len(bytes.TrimRight(prog, "\x00")) > 0 {
					sf, _ := os.OpenFile(out+".skip", os.O_CREATE|os.O_APPEND|os.O_WRONLY, 0o644)
					sf.Write(append(bytes.TrimRight(prog, "\x00"), '\n'))
					sf.Close()
				}
				res.crashes = append(res.crashes, Failure{Prop: s.Name[:3], Kind: "crash", Symptom: "process-death", Sub: s.Name,
					Detail: tail, Case: json.RawMessage(jsonOrNull(prog))})
				mu.Unlock()
				attempt++
				if attempt >= 3 {
					return
				}
			}
		}(i)
	}
	wg.Wait()
	return res
}

// raceSite extracts the first engine function named in a race report.
func raceSite(report string) string {
	for _, ln := range strings.Split(report, "\n") {
		ln = strings.TrimSpace(ln)
		if strings.HasPrefix(ln, "github.com/thanos-community/promql-engine/") {
			fn := strings.TrimPrefix(ln, "github.com/thanos-community/promql-engine/")
			if i := strings.LastIndex(fn, "("); i > 0 {
				fn = fn[:i]
			}
			return fn
		}
	}
	return "?"
}

// diesAlone re-runs the case that was in progress when a worker was killed, alone, in a
// fresh process. It reports whether that process dies too.
func diesAlone(bin string, s plan.Sub, prog []byte, out string) bool {
	prog = bytes.TrimRight(prog, "\x00")
	if len(prog) == 0 || !json.Valid(prog) {
		return false
	}
	sub := s.Name
	if i := strings.Index(sub, "/"); i >= 0 {
		// replayers are registered per sub-check under "enum:<sub>" or plain "enum"
		sub = s.Name[:i]
	}
	f := map[string]any{"property": s.Name[:3], "kind": "enum", "sub": sub, "symptom": "process-death", "case": json.RawMessage(prog)}
	b, _ := json.Marshal(f)
	p := out + ".alone.json"
	os.WriteFile(p, b, 0o644)
	mode := s.Mode
	if mode == "race" {
		mode = "free"
	}
	cmd := exec.Command(bin, "-findings", filepath.Join(verif, "findings", "known_findings.json"), "-replay", p, "-mode", mode)
	cmd.Stdout, cmd.Stderr = io.Discard, io.Discard
	done := make(chan error, 1)
	go func() { done <- cmd.Run() }()
	select {
	case err := <-done:
		if ee, ok := err.(*exec.ExitError); ok {
			if ws, ok := ee.Sys().(syscall.WaitStatus); ok && ws.Signaled() {
				return true
			}
			return ee.ExitCode() > 2
		}
		return false
	case <-time.After(10 * time.Minute):
		cmd.Process.Kill()
		return false
	}
}

func jsonOrNull(b []byte) []byte {
	b = bytes.TrimRight(b, "\x00")
	if json.Valid(b) && len(b) > 0 {
		return b
	}
	return []byte("null")
}

func merge(prop, tier string, seed int64, results []*subResult, wall time.Duration) int {
	type cov struct {
		Evaluations int64             `json:"evaluations"`
		Nontrivial  int64             `json:"distinct_nontrivial"`
		Rule        string            `json:"rule"`
		Samples     []json.RawMessage `json:"samples"`
		States      int64             `json:"states"`
		Transitions int64             `json:"transitions"`
		Traces      int64             `json:"traces_validated_against_impl"`
		Exhaustive  bool              `json:"exhaustive"`
		Outcomes    int               `json:"distinct_outcomes"`
		OutcomeCnt  map[string]int64  `json:"outcome_counts,omitempty"`
		Bounds      map[string]any    `json:"bounds"`
		Extra       map[string]int64  `json:"counters"`
		Notes       []string          `json:"notes,omitempty"`
		Known       []map[string]any  `json:"known_findings_hit,omitempty"`
		Subs        []map[string]any  `json:"sub_checks"`
	}
	c := cov{Exhaustive: true, Bounds: map[string]any{}, Extra: map[string]int64{}}
	outcomes := map[string]int64{}
	known := map[string]*KnownHit{}
	var viol []Failure
	var violCount int64
	herr := ""
	for _, r := range results {
		sub := map[string]any{"name": r.sub.Name, "mode": r.sub.Mode}
		var ev int64
		if r.herr != "" {
			herr = r.herr
		}
		for _, cr := range r.crashes {
			viol = append(viol, cr)
			violCount++
		}
		if r.overrun > 0 {
			c.Exhaustive = false
			c.Notes = append(c.Notes, fmt.Sprintf("%s: %d shards were stopped by the driver's overrun guard (machine overloaded); their part of the space is not covered", r.sub.Name, r.overrun))
		}
		for _, rep := range r.reports {
			if rep == nil {
				c.Exhaustive = false
				continue
			}
			if rep.HarnessErr != "" {
				herr = rep.HarnessErr
			}
			ev += rep.Evaluations
			c.Evaluations += rep.Evaluations
			c.Nontrivial += rep.Nontrivial
			c.States += rep.States
			c.Transitions += rep.Transitions
			c.Traces += rep.Traces
			if !rep.Exhaustive {
				c.Exhaustive = false
			}
			for k, v := range rep.Outcomes {
				outcomes[k] += v
			}
			for k, v := range rep.Extra {
				c.Extra[k] += v
			}
			for k, v := range rep.Bounds {
				c.Bounds[k] = v
			}
			for _, n := range rep.Notes {
				dup := false
				for _, m := range c.Notes {
					if m == n {
						dup = true
					}
				}
				if !dup && len(c.Notes) < 40 {
					c.Notes = append(c.Notes, n)
				}
			}
			if len(c.Samples) < 8 {
				c.Samples = append(c.Samples, rep.Samples...)
			}
			for id, h := range rep.Known {
				if k := known[id]; k != nil {
					k.Count += h.Count
				} else {
					cp := *h
					known[id] = &cp
				}
			}
			viol = append(viol, rep.Viol...)
			violCount += rep.ViolCount
		}
		sub["evaluations"] = ev
		c.Subs = append(c.Subs, sub)
	}
	c.Outcomes = len(outcomes)
	if len(outcomes) <= 300 {
		c.OutcomeCnt = outcomes
	}
	c.Rule = plan.Rule[prop]
	if len(c.Samples) > 8 {
		c.Samples = c.Samples[:8]
	}
	if herr != "" {
		fmt.Fprintf(os.Stderr, "vcheck: HARNESS ERROR (not a property verdict): %s\n", herr)
		return 2
	}

	// known findings
	os.MkdirAll(filepath.Join(outRoot(), "replays", "known"), 0o755)
	var ids []string
	for id := range known {
		ids = append(ids, id)
	}
	sort.Strings(ids)
	for _, id := range ids {
		h := known[id]
		p := filepath.Join(outRoot(), "replays", "known", prop+"-"+id+".json")
		b, _ := json.MarshalIndent(h.Witness, "", " ")
		os.WriteFile(p, b, 0o644)
		fmt.Printf("KNOWN-FINDING: property=%s %s: %s (%d cases in this run; e.g. %s)\n", prop, id, h.Title, h.Count, p)
		c.Known = append(c.Known, map[string]any{"id": id, "title": h.Title, "cases": h.Count})
	}
	// violations
	os.MkdirAll(filepath.Join(outRoot(), "replays"), 0o755)
	sort.SliceStable(viol, func(i, j int) bool { return viol[i].Symptom < viol[j].Symptom })
	printed := 0
	seenSym := map[string]int{}
	for i, v := range viol {
		if seenSym[v.Symptom] >= 3 || printed >= 12 {
			continue
		}
		seenSym[v.Symptom]++
		printed++
		p := filepath.Join(outRoot(), "replays", fmt.Sprintf("%s-%s-%d.json", prop, tier, i))
		b, _ := json.MarshalIndent(v, "", " ")
		os.WriteFile(p, b, 0o644)
		det := v.Detail
		if len(det) > 300 {
			det = det[:300] + "..."
		}
		fmt.Printf("VIOLATION property=%s replay=%s symptom=%s %s\n", prop, p, v.Symptom, strings.ReplaceAll(det, "\n", " | "))
	}
	if violCount > int64(printed) {
		fmt.Printf("(%d violating cases in total; %d shown)\n", violCount, printed)
	}

	ev := map[string]any{
		"property_id": prop,
		"tier":        tier,
		"seed":        seed,
		"level":       "model_checking",
		"coverage":    c,
		"assumptions": plan.Assumptions(prop),
		"wall_s":      wall.Seconds(),
		"violations":  violCount,
	}
	os.MkdirAll(filepath.Join(outRoot(), "evidence"), 0o755)
	b, _ := json.MarshalIndent(ev, "", " ")
	if err := os.WriteFile(filepath.Join(outRoot(), "evidence", prop+".json"), b, 0o644); err != nil {
		die(2, "%v", err)
	}
	fmt.Printf("%s %s: states=%d transitions=%d executions=%d nontrivial=%d outcomes=%d exhaustive=%v violations=%d known=%d wall=%.1fs\n",
		prop, tier, c.States, c.Transitions, c.Evaluations, c.Nontrivial, c.Outcomes, c.Exhaustive, violCount, len(known), wall.Seconds())
	if violCount > 0 {
		return 1
	}
	return 0
}
