// Command vworker runs one shard of one sub-check against the engine it was linked
// with (the instrumented current tree), or replays one recorded case.
package main

import (
	"encoding/json"
	"flag"
	"fmt"
	"os"
	"runtime"
	"runtime/debug"
	"runtime/pprof"
	"time"

	"github.com/thanos-community/promql-engine/verifshim"

	"verif/harness/check"
	_ "verif/harness/checks"
	"verif/harness/findings"
)

func main() {
	sub := flag.String("check", "", "sub-check name, e.g. C11/sched")
	tier := flag.String("tier", "quick", "quick | thorough")
	shard := flag.Int("shard", 0, "shard index")
	nshards := flag.Int("nshards", 1, "number of shards")
	seed := flag.Int64("seed", 0, "VERIF_SEED (only permutes visiting order)")
	ffile := flag.String("findings", "/verif/findings/known_findings.json", "known findings")
	out := flag.String("out", "", "report file")
	mode := flag.String("mode", "free", "free | controlled | race")
	budget := flag.Int("budget", 100, "internal deadline in seconds")
	replay := flag.String("replay", "", "replay file")
	skipfile := flag.String("skipfile", "", "file with cases (one JSON per line) to skip because they killed an earlier attempt")
	flag.Parse()

	verifshim.SetControlled(*mode == "controlled")
	// fewer collections, but a hard ceiling: sixteen workers share the machine, and the
	// engine allocates a sync.Pool family per operator
	debug.SetGCPercent(300)
	debug.SetMemoryLimit(1536 << 20)
	fs, err := findings.Load(*ffile)
	if err != nil {
		fmt.Fprintln(os.Stderr, "vworker: findings:", err)
		os.Exit(2)
	}
	if *replay != "" {
		os.Exit(check.Replay(*replay, fs))
	}
	f, ok := check.Registry[*sub]
	if !ok {
		fmt.Fprintln(os.Stderr, "vworker: unknown check", *sub)
		os.Exit(2)
	}
	prop := *sub
	if len(prop) > 3 {
		prop = prop[:3]
	}
	if os.Getenv("VERIF_MEMLOG") != "" {
		go func() {
			for {
				time.Sleep(10 * time.Second)
				var m runtime.MemStats
				runtime.ReadMemStats(&m)
				fmt.Fprintf(os.Stderr, "mem: heap=%dMB sys=%dMB goroutines=%d live=%d\n", m.HeapAlloc>>20, m.Sys>>20, runtime.NumGoroutine(), verifshim.Live())
			}
		}()
	}
	c := check.NewCtx(prop, *tier, *shard, *nshards, *seed, fs, *out+".progress", time.Duration(*budget)*time.Second)
	c.LoadSkips(*skipfile)
	f(c)
	if os.Getenv("VERIF_MEMLOG") != "" {
		runtime.GC()
		hf, _ := os.Create("/tmp/heap.prof")
		pprof.WriteHeapProfile(hf)
		hf.Close()
	}
	rep := c.Finish()
	b, _ := json.Marshal(rep)
	if *out == "" {
		fmt.Println(string(b))
	} else if err := os.WriteFile(*out, b, 0o644); err != nil {
		fmt.Fprintln(os.Stderr, "vworker:", err)
		os.Exit(2)
	}
	if rep.HarnessErr != "" {
		fmt.Fprintln(os.Stderr, "vworker: harness error:", rep.HarnessErr)
		os.Exit(2)
	}
}
