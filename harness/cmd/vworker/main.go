// Command vworker runs one shard of one sub-check against the engine it was linked
// with (the instrumented current tree), or replays one recorded case.
package main

import (
	"encoding/json"
	"flag"
	"fmt"
	"os"
	"runtime/debug"
	"time"

	"github.com/thanos-community/promql-engine/verifshim"

	"verif/harness/check"
	_ "verif/harness/checks"
	"verif/harness/findings"
)

func main() {
	sub := flag.String("check", "", "sub-check name, e.g. C11/sched")
	tier := flag.String("tier", "quick", "quick | thorough")
	shard := flag.Int("shard", 0, "shard index")
	nshards := flag.Int("nshards", 1, "number of shards")
	seed := flag.Int64("seed", 0, "VERIF_SEED (only permutes visiting order)")
	ffile := flag.String("findings", "/verif/findings/known_findings.json", "known findings")
	out := flag.String("out", "", "report file")
	mode := flag.String("mode", "free", "free | controlled | race")
	budget := flag.Int("budget", 100, "internal deadline in seconds")
	replay := flag.String("replay", "", "replay file")
	skipfile := flag.String("skipfile", "", "file with cases (one JSON per line) to skip because they killed an earlier attempt")
	flag.Parse()

	verifshim.SetControlled(*mode == "controlled")
	debug.SetGCPercent(400)
	fs, err := findings.Load(*ffile)
	if err != nil {
		fmt.Fprintln(os.Stderr, "vworker: findings:", err)
		os.Exit(2)
	}
	if *replay != "" {
		os.Exit(check.Replay(*replay, fs))
	}
	f, ok := check.Registry[*sub]
	if !ok {
		fmt.Fprintln(os.Stderr, "vworker: unknown check", *sub)
		os.Exit(2)
	}
	prop := *sub
	if len(prop) > 3 {
		prop = prop[:3]
	}
	c := check.NewCtx(prop, *tier, *shard, *nshards, *seed, fs, *out+".progress", time.Duration(*budget)*time.Second)
	c.LoadSkips(*skipfile)
	f(c)
	rep := c.Finish()
	b, _ := json.Marshal(rep)
	if *out == "" {
		fmt.Println(string(b))
	} else if err := os.WriteFile(*out, b, 0o644); err != nil {
		fmt.Fprintln(os.Stderr, "vworker:", err)
		os.Exit(2)
	}
	if rep.HarnessErr != "" {
		fmt.Fprintln(os.Stderr, "vworker: harness error:", rep.HarnessErr)
		os.Exit(2)
	}
}
