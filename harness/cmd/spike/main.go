package main

import (
	"flag"
	"fmt"
	"os"
	"runtime/pprof"
	"time"

	"verif/harness/core"
	"verif/harness/gen"
)

func main() {
	q := flag.String("q", "a", "query")
	ds := flag.String("d", "D1", "dataset")
	start := flag.Int64("start", 10000, "")
	step := flag.Int64("step", 30000, "")
	n := flag.Int("n", 11, "")
	lb := flag.Int64("lb", 0, "")
	qlb := flag.Int64("qlb", 0, "")
	opt := flag.String("opt", "none", "")
	procs := flag.Int("procs", 4, "")
	bench := flag.Int("bench", 0, "")
	flag.Parse()
	w := core.Range(*start, *step, *n)
	if *step == 0 {
		w = core.Instant(*start)
	}
	cs := &core.Case{Q: *q, Data: gen.Dataset(*ds), W: w, O: core.Opts{Optimizers: *opt, LookbackMs: *lb, QLookbackMs: *qlb, Procs: *procs}}
	st, _ := core.BuildStore(cs.Data)
	if *bench > 0 {
		f, _ := os.Create("/tmp/cpu.prof")
		pprof.StartCPUProfile(f)
		t0 := time.Now()
		for i := 0; i < *bench; i++ {
			core.RunEngine(cs, st)
		}
		t1 := time.Now()
		for i := 0; i < *bench; i++ {
			core.RunRef(cs, st)
		}
		t2 := time.Now()
		pprof.StopCPUProfile()
		fmt.Printf("engine %.0fus/op  ref %.0fus/op\n", float64(t1.Sub(t0).Microseconds())/float64(*bench), float64(t2.Sub(t1).Microseconds())/float64(*bench))
		return
	}
	out := core.RunEngine(cs, st)
	ref := core.RunRef(cs, st)
	sym, det := core.Diff(ref, out.Res, false)
	fmt.Printf("engine: %s\nref:    %s\nsym=%s det=%s\npanics=%v mon=%v wf=%v leaked=%d hang=%v\n", out.Res, ref, sym, det, out.Panics, out.Mon, out.WF, out.Leaked, out.Hang)
}
