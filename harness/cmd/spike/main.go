package main

import (
	"fmt"

	"github.com/thanos-community/promql-engine/verifshim"

	"verif/harness/core"
	"verif/harness/explore"
	"verif/harness/gen"
	"verif/harness/mstore"
)

func main() {
	verifshim.SetControlled(true)
	for _, nth := range []int{5, 15, 25, 31, 35} {
		cs := core.Case{Q: `a`, Data: gen.SchedData(43), W: core.Range(10000, 30000, 41), O: core.Opts{Procs: 2, Optimizers: "none"},
			Faults: []mstore.Fault{{Kind: "seek", Series: 0, Nth: nth, Action: "error"}}}
		sc := &explore.Scenario{Name: "x", Case: cs}
		o := explore.RunOnce(sc, explore.Sched{EventStep: -1})
		fmt.Println("nth", nth, "fired", o.Fired, "err", o.ExecErr, "steps", len(o.Run.Trace), "points", o.Res.NPoints())
		if nth == 31 {
			lost := 0
			n := 0
			for i, st := range o.Run.Trace {
				for alt := 1; alt < int(st.NAlt); alt++ {
					o2 := explore.RunOnce(sc, explore.Sched{EventStep: -1, Devs: []explore.Dev{{Step: i, Alt: alt}}})
					n++
					if len(o2.Fired) > 0 && o2.ExecErr == nil {
						lost++
						fmt.Println("  LOST at dev", i, alt, "points", o2.Res.NPoints())
					}
				}
			}
			fmt.Println("  D=1 schedules", n, "lost", lost)
		}
	}
}
