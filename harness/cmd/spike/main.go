package main

import (
	"encoding/json"
	"fmt"
	"os"

	"verif/harness/check"
	"verif/harness/core"
)

func main() {
	b, _ := os.ReadFile(os.Args[1])
	var f check.Failure
	json.Unmarshal(b, &f)
	cs := *f.Case
	cs.NDist = 0
	cs.Dist = nil
	st, _ := core.BuildStore(cs.Data)
	ref := core.RunRef(&cs, st)
	bad := map[string]int{}
	for i := 0; i < 2000; i++ {
		out := core.RunEngine(&cs, st)
		if s, d := core.Diff(ref, out.Res, false); s != "" {
			bad["central:"+s+" "+d]++
		}
		out2 := core.RunEngine(f.Case, st)
		if s, d := core.Diff(ref, out2.Res, false); s != "" {
			bad["dist:"+s+" "+d]++
		}
	}
	fmt.Println(bad)
}
