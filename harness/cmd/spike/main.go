package main

import (
	"flag"
	"fmt"
	"time"

	"github.com/thanos-community/promql-engine/verifshim"

	"verif/harness/core"
	"verif/harness/explore"
)

func data() []core.SeriesSpec {
	mk := func(l string, base float64, n int) core.SeriesSpec {
		s := core.SeriesSpec{L: l}
		for i := 0; i < n; i++ {
			s.S = append(s.S, core.Pt{T: int64(i) * 30000, V: core.F(base + float64(i))})
		}
		return s
	}
	return []core.SeriesSpec{mk(`a{l="0",m="0"}`, 1, 40), mk(`a{l="0",m="1"}`, 10, 40), mk(`a{l="1"}`, 100, 40), mk(`b{l="0"}`, 5, 40)}
}

func main() {
	q := flag.String("q", "a", "query")
	D := flag.Int("d", 1, "deviation bound")
	steps := flag.Int("n", 2, "steps")
	procs := flag.Int("procs", 4, "GOMAXPROCS")
	ev := flag.String("event", "", "event")
	pp := flag.Bool("pp", false, "pool points")
	flag.Parse()
	verifshim.SetControlled(true)
	sc := &explore.Scenario{Name: "spike", Case: core.Case{Q: *q, Data: data(), W: core.Range(10000, 30000, *steps), O: core.Opts{Procs: *procs, Optimizers: "none"}}, Event: *ev, PoolPoints: *pp}
	t0 := time.Now()
	e := &explore.Explorer{Sc: sc, D: *D}
	var rootRes *core.Result
	e.Check = func(o *explore.Obs, s explore.Sched) (string, string) {
		if o.Run.Deadlock {
			return "deadlock", fmt.Sprint(o.Run.BlockedOps)
		}
		if len(o.Run.Blocked) > 0 {
			return "leak", fmt.Sprint(o.Run.BlockedOps)
		}
		if len(o.Panics) > 0 {
			return "panic@" + o.Panics[0].Where, o.Panics[0].Val
		}
		if rootRes != nil && *ev == "" {
			if sym, det := core.Diff(rootRes, o.Res, false); sym != "" {
				return "sched:" + sym, det
			}
		}
		if *ev != "" && o.CancelRan {
			if o.ExecErr == nil {
				if sym, det := core.Diff(rootRes, o.Res, false); sym != "" {
					return "partial-result:" + sym, det
				}
			}
		}
		return "", ""
	}
	root := explore.RunOnce(sc, explore.Sched{EventStep: -1})
	rootRes = root.Res
	fmt.Printf("root: steps=%d threads=%d res=%s panics=%d mon=%v blocked=%v\n", len(root.Run.Trace), root.Run.Threads, root.Res, len(root.Panics), root.Mon, root.Run.BlockedOps)
	if *ev == "" {
		_, err := e.Explore(-1)
		fmt.Println("err:", err)
	} else {
		for k := 0; k <= e.Stats.MaxLen || k == 0; k++ {
			_, err := e.Explore(k)
			if err != nil {
				fmt.Println("err:", err)
				break
			}
			e.Stats.EventsTried++
		}
	}
	el := time.Since(t0)
	fmt.Printf("D=%d execs=%d steps=%d maxlen=%d outcomes=%d fails=%v  %.2fs (%.0f exec/s)\n", *D, e.Stats.Executions, e.Stats.Steps, e.Stats.MaxLen, len(e.Stats.Outcomes), e.FailCnt, el.Seconds(), float64(e.Stats.Executions)/el.Seconds())
	for i, f := range e.Failures {
		if i < 5 {
			fmt.Printf("  FAIL %s: %s %+v\n", f.Symptom, f.Detail, f.Sched)
		}
	}
}
