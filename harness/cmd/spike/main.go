package main

import (
	"fmt"

	"verif/harness/core"
	"verif/harness/gen"
)

func main() {
	data := gen.Dataset("D1")
	st, _ := core.BuildStore(data)
	for _, q := range []string{`stdvar_over_time(a[1m])`, `topk(1, stdvar_over_time(a[1m]))`} {
		cs := &core.Case{Q: q, Data: data, W: core.Range(10000, 30000, 4), O: core.Opts{Optimizers: "none"}}
		for i := 0; i < 3; i++ {
			o := core.RunEngine(cs, st)
			fmt.Println(q, o.Res)
		}
		fmt.Println("ref", core.RunRef(cs, st))
	}
}
