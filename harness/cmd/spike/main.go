package main

import (
	"fmt"

	"github.com/thanos-community/promql-engine/verifshim"
)

func main() {
	verifshim.SetControlled(true)
	outcomes := map[string]int{}
	var explore func(devs map[int]int, from int, depth int)
	execs := 0
	explore = func(devs map[int]int, from int, depth int) {
		var got []int
		ch := make(chan int)
		done := make(chan struct{})
		res := verifshim.Run(verifshim.RunOpts{Devs: devs, EventStep: -1}, func() {
			for p := 0; p < 2; p++ {
				p := p
				verifshim.Go(func() {
					verifshim.Send(ch, 10+p)
					verifshim.Send(ch, 20+p)
				})
			}
			verifshim.Go(func() {
				for i := 0; i < 4; i++ {
					c0 := verifshim.RecvCase(ch)
					c1 := verifshim.RecvCase(done)
					switch verifshim.Select(false, c0, c1) {
					case 0:
						got = append(got, c0.Val)
					}
				}
				verifshim.Close(done)
			})
			verifshim.Recv(done)
		})
		execs++
		outcomes[fmt.Sprint(got, res.Deadlock, res.Blocked, res.Unsupp)]++
		if depth == 0 {
			return
		}
		for i := from; i < len(res.Trace); i++ {
			for alt := 1; alt < int(res.Trace[i].NAlt); alt++ {
				d := map[int]int{}
				for k, v := range devs {
					d[k] = v
				}
				d[i] = alt
				explore(d, i+1, depth-1)
			}
		}
	}
	explore(map[int]int{}, 0, 3)
	fmt.Println("executions", execs)
	for k, v := range outcomes {
		fmt.Println(v, k)
	}
	// a deadlock: send with no receiver
	ch := make(chan int)
	res := verifshim.Run(verifshim.RunOpts{EventStep: -1}, func() { verifshim.Send(ch, 1) })
	fmt.Println("deadlock detected:", res.Deadlock, res.BlockedOps)
}
