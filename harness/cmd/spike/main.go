package main

import (
	"fmt"

	"verif/harness/core"
	"verif/harness/gen"
)

func main() {
	data := gen.Dataset("D3")
	st, _ := core.BuildStore(data)
	for k := 0; k < 12; k++ {
		t := int64(10000 + 30000*k)
		for _, q := range []string{`(bottomk(2, a)) >= on (l) (sum by (l) (a))`, `bottomk(2, a)`, `sum by (l) (a)`} {
			cs := &core.Case{Q: q, Data: data, W: core.Instant(t), O: core.Opts{Optimizers: "none"}}
			o := core.RunEngine(cs, st)
			r := core.RunRef(cs, st)
			fmt.Printf("t=%d %-45s engine=%s\n%57s ref=%s\n", t, q, o.Res, "", r)
		}
	}
}
