package main

import (
	"encoding/json"
	"flag"
	"fmt"
	"os"

	"verif/harness/core"
	"verif/harness/gen"
)

func main() {
	q := flag.String("q", "a", "query")
	ds := flag.String("d", "D1", "dataset")
	start := flag.Int64("start", 10000, "")
	step := flag.Int64("step", 30000, "")
	n := flag.Int("n", 11, "")
	lb := flag.Int64("lb", 0, "")
	qlb := flag.Int64("qlb", 0, "")
	opt := flag.String("opt", "none", "")
	procs := flag.Int("procs", 4, "")
	flag.Parse()
	w := core.Range(*start, *step, *n)
	if *step == 0 {
		w = core.Instant(*start)
	}
	cs := &core.Case{Q: *q, Data: gen.Dataset(*ds), W: w, O: core.Opts{Optimizers: *opt, LookbackMs: *lb, QLookbackMs: *qlb, Procs: *procs}}
	st, _ := core.BuildStore(cs.Data)
	out := core.RunEngine(cs, st)
	ref := core.RunRef(cs, st)
	sym, det := core.Diff(ref, out.Res, false)
	fmt.Printf("engine: %s\nref:    %s\nsym=%s det=%s\npanics=%v mon=%v wf=%v leaked=%d hang=%v\n", out.Res, ref, sym, det, out.Panics, out.Mon, out.WF, out.Leaked, out.Hang)
	if len(os.Args) > 100 {
		json.Marshal(cs)
	}
}
