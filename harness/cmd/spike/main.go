package main

import (
	"fmt"

	"verif/harness/core"
	"verif/harness/gen"
)

func main() {
	cs := &core.Case{Q: `stdvar(a or b)`, Data: gen.Dataset("D1"), W: core.Range(10000, 30000, 3), O: core.Opts{Optimizers: "none", Fallback: true}}
	st, _ := core.BuildStore(cs.Data)
	for i := 0; i < 3; i++ {
		r := core.RunRef(cs, st)
		fmt.Println("ref     ", r.Series[0].Points)
	}
	for i := 0; i < 3; i++ {
		o := core.RunEngine(cs, st)
		fmt.Println("fallback", o.IsPromQuery, o.Res.Series[0].Points)
	}
	for i := 0; i < 3; i++ {
		r := core.RunRef(cs, st)
		fmt.Println("ref     ", r.Series[0].Points)
	}
}
