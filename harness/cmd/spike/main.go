package main

import (
	"context"
	"fmt"
	"time"

	"github.com/prometheus/prometheus/promql"

	"verif/harness/core"
	"verif/harness/gen"
)

func main() {
	st, _ := core.BuildStore([]core.SeriesSpec{
		gen.Regular(`a{l="0",m="0"}`, 0, 30000, 10, 1, 1), gen.Regular(`a{l="0",m="1"}`, 0, 30000, 10, 10, 2), gen.Regular(`a{l="1"}`, 0, 30000, 10, 100, 0.5)})
	eng := promql.NewEngine(promql.EngineOpts{MaxSamples: 1e7, Timeout: time.Minute})
	run := func() (*promql.Result, promql.Query) {
		q, err := eng.NewRangeQuery(st, nil, `count_values("v", a)`, time.UnixMilli(10000), time.UnixMilli(340000), 30*time.Second)
		if err != nil {
			panic(err)
		}
		return q.Exec(context.Background()), q
	}
	r1, q1 := run()
	s1 := core.Canon(r1).String()
	r2, q2 := run()
	s1b := core.Canon(r1).String()
	fmt.Println("first result unchanged after a second query (both open):", s1 == s1b)
	fmt.Println("second equals first:", core.Canon(r2).String() == s1)
	q1.Close()
	q2.Close()
	_ = q2
}
