package core

import (
	"io"
	"context"
	"errors"
	"fmt"
	"math"
	"runtime"
	"sort"
	"strings"
	"time"

	"github.com/prometheus/client_golang/prometheus"
	dto "github.com/prometheus/client_model/go"
	"github.com/prometheus/prometheus/model/labels"
	"github.com/prometheus/prometheus/model/value"
	"github.com/prometheus/prometheus/promql"
	"github.com/prometheus/prometheus/promql/parser"
	"github.com/prometheus/prometheus/storage"

	"github.com/thanos-community/promql-engine/api"
	"github.com/thanos-community/promql-engine/engine"
	"github.com/thanos-community/promql-engine/execution/parse"
	"github.com/thanos-community/promql-engine/logicalplan"
	"github.com/thanos-community/promql-engine/verifshim"
	"github.com/thanos-community/promql-engine/verifshim/opmon"
	vsync "github.com/thanos-community/promql-engine/verifshim/sync"

	"verif/harness/mstore"
)

// Outcome of one execution of the engine under test.
type Outcome struct {
	Res      *Result
	WF       []string               // well-formedness violations of a successful result (C19)
	Panics   []verifshim.PanicRec   // panics that reached the top of an engine goroutine (C13)
	Mon      []opmon.Violation      // operator contract violations (C18)
	Leaked   int64                  // engine goroutines still alive after the grace period (C14)
	Hang     bool                   // Exec did not return within the hang guard (C14)
	Path     string                 // "native" | "fallback" | "" (creation failed), from the counter
	QueryType   string              // Go type of the created query object
	IsPromQuery bool                // the query object is the Prometheus engine's (fallback taken)
	Counter  map[string]float64     // promql_engine_queries_total by fallback label
	ErrIs    map[string]bool        // errors.Is classification of the creation / exec error
	ExecErr  error                  `json:"-"`
	Opens    int
	Closes   int
	CloseCnt []int
	OpenAtReturn int                // queriers still open when Exec returned
	Selects  []mstore.SelectRec
	Fired    []string
	LabelsModified []string // storage label sets the engine modified (ShareLabels cases)
}

func optimizers(s string) []logicalplan.Optimizer {
	switch s {
	case "", "default":
		return nil
	case "none":
		return logicalplan.NoOptimizers
	case "all":
		return logicalplan.AllOptimizers
	}
	out := []logicalplan.Optimizer{}
	for _, c := range s {
		switch c {
		case 's':
			out = append(out, logicalplan.SortMatchers{})
		case 'm':
			out = append(out, logicalplan.MergeSelectsOptimizer{})
		case 'p':
			out = append(out, logicalplan.PropagateMatchersOptimizer{})
		}
	}
	return out
}

func promOpts(o Opts) promql.EngineOpts {
	lb := time.Duration(o.LookbackMs) * time.Millisecond
	return promql.EngineOpts{
		MaxSamples:           50000000,
		Timeout:              10 * time.Minute,
		LookbackDelta:        lb,
		EnableAtModifier:     true,
		EnableNegativeOffset: true,
		NoStepSubqueryIntervalFn: func(int64) int64 { return 30000 },
	}
}

func EngineOpts(o Opts, reg prometheus.Registerer) engine.Opts {
	po := promOpts(o)
	po.Reg = reg
	eo := engine.Opts{EngineOpts: po, LogicalOptimizers: optimizers(o.Optimizers), DisableFallback: !o.Fallback}
	if o.Debug {
		eo.DebugWriter = io.Discard
	}
	return eo
}

func qopts(o Opts) *promql.QueryOpts {
	if o.QLookbackMs == 0 {
		return nil
	}
	return &promql.QueryOpts{LookbackDelta: time.Duration(o.QLookbackMs) * time.Millisecond}
}

func ms(t int64) time.Time { return time.UnixMilli(t).UTC() }

type queryEngine interface {
	NewInstantQuery(q storage.Queryable, opts *promql.QueryOpts, qs string, ts time.Time) (promql.Query, error)
	NewRangeQuery(q storage.Queryable, opts *promql.QueryOpts, qs string, start, end time.Time, interval time.Duration) (promql.Query, error)
}

func NewQuery(e queryEngine, st storage.Queryable, c *Case) (promql.Query, error) {
	ns := c.W.SubNs
	if c.W.Instant() {
		return e.NewInstantQuery(st, qopts(c.O), c.Q, ms(c.W.Start).Add(time.Duration(ns[0])))
	}
	return e.NewRangeQuery(st, qopts(c.O), c.Q, ms(c.W.Start).Add(time.Duration(ns[0])), ms(c.W.End).Add(time.Duration(ns[1])), time.Duration(c.W.Step)*time.Millisecond+time.Duration(ns[2]))
}

func SetProcs(n int) {
	if n == 0 {
		n = 4
	}
	if runtime.GOMAXPROCS(0) != n {
		runtime.GOMAXPROCS(n)
	}
}

func SetPool(p string) {
	if p == "" {
		p = "real"
	}
	if vsync.PoolPolicy() != p {
		vsync.SetPoolPolicy(p)
	}
}

// HangGuard is the per-execution hang guard of free-mode runs. It is deliberately
// enormous compared to an evaluation (<1 ms): on a machine that is oversubscribed many
// times over, a starved process must never be taken for a deadlocked one. A real
// deadlock hangs for any guard.
var HangGuard = 60 * time.Second

// LeakGrace is how long free-mode runs wait for engine goroutines to terminate.
var LeakGrace = 60 * time.Second

// SlowRuns counts executions that needed more than 5 s of wall time (starvation).
var SlowRuns int64

// CountPaths makes RunEngine create a fresh engine with its own registry per case so
// that the per-path query counter can be read (C08). Otherwise engines are cached per
// option set: an engine instance is meant to be long-lived and shared.
var CountPaths = false

// DistFaults injects faults into the stores of the remote engines of a distributed
// case (index = engine number).
var DistFaults map[int][]mstore.Fault

var engCache = map[Opts]queryEngine{}
var refCache = map[Opts]*promql.Engine{}

func optsKey(o Opts) Opts {
	o.Procs = 0
	o.Pool = ""
	o.QLookbackMs = 0
	return o
}

// BuildEngine creates the engine a case asks for (local or distributed).
func BuildEngine(c *Case, reg prometheus.Registerer) (queryEngine, []*mstore.Store, error) {
	if c.NDist == 0 && !CountPaths {
		k := optsKey(c.O)
		if e, ok := engCache[k]; ok {
			return e, nil, nil
		}
		e := engine.New(EngineOpts(c.O, nil))
		engCache[k] = e
		return e, nil, nil
	}
	eo := EngineOpts(c.O, reg)
	if c.NDist == 0 {
		return engine.New(eo), nil, nil
	}
	parts := make([][]SeriesSpec, c.NDist)
	for i, d := range c.Data {
		k := 0
		if i < len(c.Dist) {
			k = c.Dist[i]
		}
		parts[k] = append(parts[k], d)
	}
	var remotes []api.RemoteEngine
	var stores []*mstore.Store
	ro := EngineOpts(c.O, nil)
	if c.O.RemoteNoFallback {
		ro.DisableFallback = true
	}
	for _, p := range parts {
		st, err := BuildStore(p)
		if err != nil {
			return nil, nil, err
		}
		st.Faults = DistFaults[len(stores)]
		st.HonorCtx = c.StoreCtx
		st.OwnAbortErr = c.StoreOwnErr
		stores = append(stores, st)
		remotes = append(remotes, engine.NewLocalEngine(ro, st))
	}
	vis := len(remotes)
	if EndpointsAtBuild >= 0 && EndpointsAtBuild < vis {
		vis = EndpointsAtBuild
	}
	ep := &dynEndpoints{engines: remotes, visible: vis}
	lastEndpoints = ep
	return engine.NewDistributedEngine(eo, ep), stores, nil
}

// dynEndpoints is a RemoteEndpoints whose list can grow after the engine was built
// (remote engines discovered later): Engines() is meant to be asked per query.
type dynEndpoints struct {
	engines []api.RemoteEngine
	visible int
}

func (d *dynEndpoints) Engines() []api.RemoteEngine { return d.engines[:d.visible] }

// EndpointsAtBuild, if >= 0, is the number of remote engines that the endpoints of the
// next distributed engine report while it is constructed; RevealEndpoints makes all of
// them visible.
var EndpointsAtBuild = -1
var lastEndpoints *dynEndpoints

func RevealEndpoints() {
	if lastEndpoints != nil {
		lastEndpoints.visible = len(lastEndpoints.engines)
	}
}

// AfterBuild, if set, runs between the construction of the engine of a case and the
// creation of its query (e.g. to construct another engine in the same process).
var AfterBuild func()

// RunEngine executes one case on the engine under test in free mode.
func RunEngine(c *Case, st *mstore.Store) *Outcome {
	return RunEngineCtx(context.Background(), c, st, nil)
}

// RunEngineCtx is RunEngine with a caller-supplied context; withQuery, if set, is
// called with the created query before Exec (to arm cancellation faults).
func RunEngineCtx(ctx context.Context, c *Case, st *mstore.Store, withQuery func(q promql.Query, cancel context.CancelFunc)) *Outcome {
	out := &Outcome{Res: &Result{Type: "none"}, ErrIs: map[string]bool{}}
	SetProcs(c.O.Procs)
	SetPool(c.O.Pool)
	st.Reset()
	st.Faults = c.Faults
	st.HonorCtx = c.StoreCtx
	st.OwnAbortErr = c.StoreOwnErr
	if c.ShareLabels {
		snap := st.Snapshot()
		st.ShareLabels = true
		defer func() {
			st.ShareLabels = false
			for i := range st.Series {
				if !labels.Equal(st.Series[i].Labels, snap[i]) {
					out.LabelsModified = append(out.LabelsModified, fmt.Sprintf("#%d %s -> %s", i, snap[i], st.Series[i].Labels))
					st.Series[i].Labels = snap[i]
				}
			}
		}()
	}
	var reg *prometheus.Registry
	if CountPaths {
		reg = prometheus.NewRegistry()
	}
	var regi prometheus.Registerer
	if reg != nil {
		regi = reg
	}
	eng, remoteStores, err := BuildEngine(c, regi)
	if err != nil {
		out.Res.CreateErr = "harness: " + err.Error()
		return out
	}
	if AfterBuild != nil {
		AfterBuild()
	}
	var q promql.Query
	func() {
		defer func() {
			if r := recover(); r != nil {
				verifshim.TakePanics()
				out.Panics = append(out.Panics, verifshim.PanicRec{Val: fmt.Sprint(r), Where: "query creation"})
				err = fmt.Errorf("panic during query creation: %v", r)
			}
		}()
		q, err = NewQuery(eng, st, c)
	}()
	if reg != nil {
		out.Counter = readCounter(reg)
	}
	switch {
	case out.Counter["true"] > 0:
		out.Path = "fallback"
	case out.Counter["false"] > 0:
		out.Path = "native"
	}
	if err != nil {
		out.Res.CreateErr = err.Error()
		classify(out.ErrIs, err)
		return out
	}
	out.QueryType = fmt.Sprintf("%T", q)
	out.IsPromQuery = strings.HasPrefix(out.QueryType, "*promql.")
	ctx, cancel := context.WithCancel(ctx)
	defer cancel()
	st.Cancel = cancel
	if c.QCancel {
		st.Cancel = q.Cancel
	}
	if c.QClose {
		st.Cancel = q.Close
	}
	for _, rs := range remoteStores {
		rs.Cancel = st.Cancel
	}
	if withQuery != nil {
		withQuery(q, cancel)
	}
	done := make(chan *promql.Result, 1)
	var execPanic any
	go func() {
		defer func() {
			if r := recover(); r != nil {
				execPanic = r
				done <- &promql.Result{Err: fmt.Errorf("panic out of Exec: %v", r)}
			}
		}()
		done <- q.Exec(ctx)
	}()
	var res *promql.Result
	t0 := time.Now()
	tick := time.NewTicker(200 * time.Millisecond)
	defer tick.Stop()
	panicSeen := time.Time{}
wait:
	for {
		select {
		case res = <-done:
			break wait
		case <-tick.C:
			// A goroutine of the query died from a panic (process death in an
			// uninstrumented build): what Exec does afterwards is meaningless, do not
			// sit out the whole hang guard.
			if verifshim.PanicCount() > 0 {
				if panicSeen.IsZero() {
					panicSeen = time.Now()
				} else if time.Since(panicSeen) > 3*time.Second {
					out.Hang = true
					out.Panics = append(out.Panics, verifshim.TakePanics()...)
					cancel()
					out.Res.Err = "HANG after a goroutine-top panic"
					return out
				}
			}
			if time.Since(t0) > HangGuard {
				out.Hang = true
				cancel()
				out.Res.Err = "HANG"
				return out
			}
		}
	}
	if time.Since(t0) > 5*time.Second {
		SlowRuns++
	}
	st.OpenAtReturnSnapshot()
	out.OpenAtReturn = st.OpenAtReturn
	for _, rs := range remoteStores {
		// the queriers of the remote engines of a distributed case count as well
		rs.OpenAtReturnSnapshot()
		out.OpenAtReturn += rs.OpenAtReturn
	}
	if execPanic != nil {
		out.Panics = append(out.Panics, verifshim.PanicRec{Val: fmt.Sprint(execPanic), Where: "Exec (escaped)"})
	}
	out.ExecErr = res.Err
	out.Res = Canon(res)
	if res.Err != nil {
		classify(out.ErrIs, res.Err)
	} else {
		expr, perr := parser.ParseExpr(c.Q)
		if perr == nil {
			out.WF = WellFormed(res, c.W, expr.Type())
		}
	}
	q.Close()
	cancel()
	out.Leaked = WaitQuiescent(LeakGrace)
	out.Panics = append(out.Panics, verifshim.TakePanics()...)
	out.Mon = opmon.Take()
	out.Opens, out.Closes = st.Opens, st.Closes
	out.CloseCnt = st.CloseCounts()
	for _, rs := range remoteStores {
		out.CloseCnt = append(out.CloseCnt, rs.CloseCounts()...)
		out.Fired = append(out.Fired, rs.Fired...)
	}
	out.Selects = st.Selects
	out.Fired = st.Fired
	return out
}

// WaitQuiescent waits until no engine goroutine is alive; it returns the number still
// alive after the grace period.
func WaitQuiescent(grace time.Duration) int64 {
	if verifshim.Live() == 0 {
		return 0
	}
	deadline := time.Now().Add(grace)
	for i := 0; ; i++ {
		if verifshim.Live() == 0 {
			return 0
		}
		if i < 200 {
			runtime.Gosched()
			continue
		}
		if time.Now().After(deadline) {
			return verifshim.Live()
		}
		time.Sleep(200 * time.Microsecond)
	}
}

func classify(m map[string]bool, err error) {
	m["injected"] = errors.Is(err, mstore.ErrInjected)
	m["canceled"] = errors.Is(err, context.Canceled)
	m["deadline"] = errors.Is(err, context.DeadlineExceeded)
	m["unsupported"] = errors.Is(err, parse.ErrNotSupportedExpr)
	m["notimplemented"] = errors.Is(err, parse.ErrNotImplemented)
}

func readCounter(reg *prometheus.Registry) map[string]float64 {
	out := map[string]float64{}
	mfs, err := reg.Gather()
	if err != nil {
		return out
	}
	for _, mf := range mfs {
		if mf.GetName() != "promql_engine_queries_total" {
			continue
		}
		for _, m := range mf.Metric {
			out[labelOf(m, "fallback")] += m.GetCounter().GetValue()
		}
	}
	return out
}

func labelOf(m *dto.Metric, name string) string {
	for _, l := range m.Label {
		if l.GetName() == name {
			return l.GetValue()
		}
	}
	return ""
}

// RunRef executes the case on the reference Prometheus engine.
func RunRef(c *Case, st *mstore.Store) *Result {
	st.Reset()
	st.Faults = nil
	eng := refCache[optsKey(c.O)]
	if eng == nil {
		eng = promql.NewEngine(promOpts(c.O))
		refCache[optsKey(c.O)] = eng
	}
	q, err := NewQuery(eng, st, c)
	if err != nil {
		return &Result{Type: "none", CreateErr: err.Error()}
	}
	defer q.Close()
	var res *promql.Result
	func() {
		defer func() {
			if r := recover(); r != nil {
				res = &promql.Result{Err: fmt.Errorf("reference panic: %v", r)}
			}
		}()
		res = q.Exec(context.Background())
	}()
	return Canon(res)
}

// RefSelects runs the reference engine and returns the Select calls it made (C16).
func RefSelects(c *Case, st *mstore.Store) ([]mstore.SelectRec, *Result) {
	r := RunRef(c, st)
	return st.Selects, r
}

// Canon converts a promql.Result into the canonical form.
func Canon(res *promql.Result) *Result {
	out := &Result{Type: "none"}
	if res == nil {
		out.Err = "nil result"
		return out
	}
	if res.Err != nil {
		out.Err = res.Err.Error()
		if out.Err == "" {
			out.Err = "error with empty message"
		}
		return out
	}
	switch v := res.Value.(type) {
	case promql.Vector:
		out.Type = "vector"
		for _, s := range v {
			out.Series = append(out.Series, RSeries{Labels: CanonLabels(s.Metric), Points: []RPoint{{T: s.T, V: F(s.V)}}})
		}
	case promql.Matrix:
		out.Type = "matrix"
		for _, s := range v {
			rs := RSeries{Labels: CanonLabels(s.Metric)}
			for _, p := range s.Points {
				rs.Points = append(rs.Points, RPoint{T: p.T, V: F(p.V)})
			}
			out.Series = append(out.Series, rs)
		}
	case promql.Scalar:
		out.Type = "scalar"
		out.Series = []RSeries{{Labels: "{}", Points: []RPoint{{T: v.T, V: F(v.V)}}}}
	case promql.String:
		out.Type = "string"
		out.Str = v.V
	case nil:
		out.Type = "none"
	default:
		out.Type = fmt.Sprintf("%T", v)
	}
	out.sortSeries()
	return out
}

// WellFormed is the predicate of C19 on a successful raw result.
func WellFormed(res *promql.Result, w Window, typ parser.ValueType) []string {
	var bad []string
	add := func(f string, a ...any) {
		if len(bad) < 8 {
			bad = append(bad, fmt.Sprintf(f, a...))
		}
	}
	checkLabels := func(l labels.Labels) {
		for i, x := range l {
			if x.Value == "" {
				add("wf:empty-label-value %s", l)
			}
			if i > 0 && l[i-1].Name == x.Name {
				add("wf:repeated-label %s", l)
			} else if i > 0 && l[i-1].Name > x.Name {
				add("wf:labels-unsorted %s", l)
			}
		}
	}
	checkV := func(v float64, l labels.Labels) {
		if v != v && value.IsStaleNaN(v) {
			add("wf:stale-marker %s", l)
		}
	}
	if !w.Instant() {
		m, ok := res.Value.(promql.Matrix)
		if !ok {
			add("wf:range-type %T", res.Value)
			return bad
		}
		seen := map[string]bool{}
		for i, s := range m {
			checkLabels(s.Metric)
			k := CanonLabels(s.Metric)
			if seen[k] {
				add("wf:dup-labelset %s", k)
			}
			seen[k] = true
			if i > 0 && labels.Compare(m[i-1].Metric, s.Metric) > 0 {
				add("wf:matrix-unsorted at %d", i)
			}
			if len(s.Points) == 0 {
				add("wf:empty-series %s", k)
			}
			for j, p := range s.Points {
				if j > 0 && s.Points[j-1].T >= p.T {
					add("wf:timestamps-not-increasing %s", k)
					break
				}
				if p.T < w.Start || p.T > w.End || (p.T-w.Start)%w.Step != 0 {
					add("wf:off-grid %s T=%d", k, p.T)
					break
				}
				checkV(p.V, s.Metric)
			}
		}
		return bad
	}
	switch v := res.Value.(type) {
	case promql.Vector:
		if typ != parser.ValueTypeVector {
			add("wf:instant-type vector for %s", typ)
		}
		seen := map[string]bool{}
		for _, s := range v {
			checkLabels(s.Metric)
			k := CanonLabels(s.Metric)
			if seen[k] {
				add("wf:dup-labelset %s", k)
			}
			seen[k] = true
			if s.T != w.Start {
				add("wf:vector-timestamp %s T=%d", k, s.T)
			}
			checkV(s.V, s.Metric)
		}
	case promql.Scalar:
		if typ != parser.ValueTypeScalar {
			add("wf:instant-type scalar for %s", typ)
		}
		if v.T != w.Start {
			add("wf:scalar-timestamp T=%d", v.T)
		}
		checkV(v.V, nil)
	case promql.Matrix:
		if typ != parser.ValueTypeMatrix {
			add("wf:instant-type matrix for %s", typ)
		}
		for _, s := range v {
			checkLabels(s.Metric)
			for _, p := range s.Points {
				checkV(p.V, s.Metric)
			}
		}
	case promql.String:
		if typ != parser.ValueTypeString {
			add("wf:instant-type string for %s", typ)
		}
	default:
		add("wf:instant-type %T", res.Value)
	}
	return bad
}

// ---------------------------------------------------------------------------------
// features of a case (for the known-findings scope match)

func Features(c *Case) []string {
	f := map[string]bool{}
	expr, err := parser.ParseExpr(c.Q)
	if err != nil {
		return []string{"unparsable"}
	}
	n := c.W.NSteps()
	if c.W.Instant() {
		f["instant"] = true
	} else {
		f["range"] = true
	}
	if n > 10 {
		f["steps>10"] = true
	}
	if c.O.QLookbackMs != 0 {
		f["opt:per-query-lookback"] = true
	}
	if c.NDist > 0 {
		f["dist"] = true
	}
	switch expr.Type() {
	case parser.ValueTypeScalar:
		f["root:scalar"] = true
	case parser.ValueTypeVector:
		f["root:vector"] = true
	}
	var walk func(e parser.Expr, parent parser.Expr)
	walk = func(e parser.Expr, parent parser.Expr) {
		switch x := e.(type) {
		case *parser.Call:
			f["call:"+x.Func.Name] = true
			if len(x.Args) == 0 {
				f["call:noarg"] = true
			}
			if x.Func.Name == "scalar" || x.Func.Name == "vector" {
				f["call:scalar|vector"] = true
			}
			if x.Func.Name == "scalar" {
				// every selector below the argument matches no series
				n, none := 0, true
				parser.Inspect(x.Args[0], func(nd parser.Node, _ []parser.Node) error {
					if vs, ok := nd.(*parser.VectorSelector); ok {
						n++
						if selectorMatchesAny(vs, c) {
							none = false
						}
					}
					return nil
				})
				if n > 0 && none {
					f["scalar:arg-no-series"] = true
				}
			}
			if x.Func.Name == "clamp" {
				if a, ok := x.Args[1].(*parser.NumberLiteral); ok {
					if b, ok := x.Args[2].(*parser.NumberLiteral); ok && b.Val < a.Val {
						f["call:clamp&max<min"] = true
					}
				}
			}
			for _, a := range x.Args {
				if ms, ok := a.(*parser.MatrixSelector); ok {
					f["rangefn"] = true
					if ms.Range < time.Second || ms.Range%time.Second != 0 {
						f["rangefn:subsecond-range"] = true
					}
				}
				walk(a, e)
			}
		case *parser.AggregateExpr:
			op := x.Op.String()
			f["agg:"+op] = true
			if x.Without {
				f["agg:without"] = true
			} else if len(x.Grouping) > 0 {
				f["agg:by"] = true
			}
			if x.Op == parser.TOPK || x.Op == parser.BOTTOMK {
				f["agg:k"] = true
				if len(x.Grouping) > 0 || x.Without {
					f["agg:k&grouped"] = true
				}
				if parent != nil {
					f["agg:k&nested"] = true
				}
				if lit, ok := x.Param.(*parser.NumberLiteral); ok {
					if lit.Val < 1 || lit.Val != lit.Val || lit.Val > 1e15 {
						f["agg:k&k<1-or-overflow"] = true
					}
				} else {
					f["agg:k&param-expr"] = true
					f["agg:param-expr"] = true
				}
			}
			if x.Op == parser.QUANTILE {
				if _, ok := x.Param.(*parser.NumberLiteral); !ok {
					f["agg:quantile&param-expr"] = true
					f["agg:param-expr"] = true
				}
			}
			if !x.Without && len(x.Grouping) == 0 {
				f["agg:vectorised"] = true
				if containsUnaryMinus(x.Expr) {
					f["agg:vectorised&unary-minus"] = true
				}
			}
			if x.Param != nil {
				walk(x.Param, e)
			}
			walk(x.Expr, e)
		case *parser.BinaryExpr:
			f["binop"] = true
			f["binop:"+x.Op.String()] = true
			ls, rs := x.LHS.Type() == parser.ValueTypeScalar, x.RHS.Type() == parser.ValueTypeScalar
			switch {
			case ls && rs:
				f["binop:scalar-scalar"] = true
			case ls || rs:
				f["binop:vector-scalar"] = true
			default:
				f["binop:vector-vector"] = true
			}
			if x.ReturnBool {
				f["binop:bool"] = true
			}
			if x.Op.IsComparisonOperator() {
				f["binop:comparison"] = true
			}
			if x.VectorMatching != nil {
				if len(x.VectorMatching.Include) > 0 {
					f["binop:group-include"] = true
				}
				if x.VectorMatching.Card == parser.CardManyToOne || x.VectorMatching.Card == parser.CardOneToMany {
					f["binop:group"] = true
				} else if !ls && !rs {
					f["binop:one-to-one"] = true
				}
				if x.VectorMatching.On {
					f["binop:on"] = true
				} else if len(x.VectorMatching.MatchingLabels) > 0 {
					f["binop:ignoring"] = true
				}
			}
			walk(x.LHS, e)
			walk(x.RHS, e)
		case *parser.UnaryExpr:
			if x.Op == parser.SUB {
				f["unary-minus"] = true
			}
			walk(x.Expr, e)
		case *parser.ParenExpr:
			f["paren"] = true
			walk(x.Expr, e)
		case *parser.VectorSelector:
			if x.Timestamp != nil || x.StartOrEnd != 0 {
				f["at"] = true
			}
			if x.OriginalOffset != 0 {
				f["offset"] = true
			}
			named := false
			for _, m := range x.LabelMatchers {
				if m.Name == labels.MetricName && m.Type == labels.MatchEqual {
					named = true
				}
			}
			if !named {
				f["sel:no-name-eq"] = true
			}
		case *parser.MatrixSelector:
			walk(x.VectorSelector, e)
		case *parser.SubqueryExpr:
			f["subquery"] = true
			walk(x.Expr, e)
		case *parser.NumberLiteral:
			f["literal"] = true
		case *parser.StringLiteral:
			f["string"] = true
		case *parser.StepInvariantExpr:
			walk(x.Expr, e)
		}
	}
	walk(expr, nil)
	// checks may attach data-derived features to a case through its note
	for _, tok := range strings.Fields(c.Note) {
		if strings.HasPrefix(tok, "feat:") {
			f[tok[5:]] = true
		}
	}
	for _, d := range c.Data {
		for _, p := range d.S {
			v := float64(p.V)
			switch {
			case value.IsStaleNaN(v):
				f["data:stale"] = true
			case math.IsNaN(v):
				f["data:nan"] = true
			case math.IsInf(v, 0):
				f["data:inf"] = true
			}
		}
	}
	if len(c.Data) == 0 {
		f["data:empty"] = true
	}
	out := make([]string, 0, len(f))
	for k := range f {
		out = append(out, k)
	}
	sort.Strings(out)
	return out
}

func containsUnaryMinus(e parser.Expr) bool {
	found := false
	parser.Inspect(e, func(n parser.Node, _ []parser.Node) error {
		if u, ok := n.(*parser.UnaryExpr); ok && u.Op == parser.SUB {
			found = true
		}
		return nil
	})
	return found
}

var _ = math.NaN
var _ = strings.Join

// WellFormedQ applies WellFormed using the case's own query type.
func WellFormedQ(res *promql.Result, c *Case) []string {
	expr, err := parser.ParseExpr(c.Q)
	if err != nil {
		return nil
	}
	return WellFormed(res, c.W, expr.Type())
}

func selectorMatchesAny(vs *parser.VectorSelector, c *Case) bool {
	for _, d := range c.Data {
		l, err := ParseLabels(d.L)
		if err != nil {
			continue
		}
		ok := true
		for _, m := range vs.LabelMatchers {
			if !m.Matches(l.Get(m.Name)) {
				ok = false
				break
			}
		}
		if ok {
			return true
		}
	}
	return false
}

type panicQueryable struct{}

func (panicQueryable) Querier(ctx context.Context, mint, maxt int64) (storage.Querier, error) {
	panic("storage accessed during query creation")
}

// CreateOnly creates (and closes, without executing) the query of a case over a storage
// that panics on any access. It returns the Go type of the query object, the creation
// error, and the panic message if creation touched the storage.
func CreateOnly(c *Case) (qtype string, err error, panicked string) {
	defer func() {
		if r := recover(); r != nil {
			panicked = fmt.Sprint(r)
		}
	}()
	eng := engine.New(EngineOpts(c.O, nil))
	q, err := NewQuery(eng, panicQueryable{}, c)
	if err != nil {
		return "", err, ""
	}
	qtype = fmt.Sprintf("%T", q)
	q.Close()
	return qtype, nil, ""
}

// NewQueryAny creates a query on an engine returned by BuildEngine.
func NewQueryAny(e any, st storage.Queryable, c *Case) (promql.Query, error) {
	return NewQuery(e.(queryEngine), st, c)
}
