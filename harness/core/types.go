// Package core holds the case model shared by every check: a self-contained JSON
// description of one execution (query, inline data, window, options, faults), the
// runners for the engine under test and for the reference engine, canonical results,
// and the comparison / well-formedness oracles.
package core

import (
	"encoding/json"
	"fmt"
	"math"
	"sort"
	"strconv"
	"strings"

	"github.com/prometheus/prometheus/model/labels"
	"github.com/prometheus/prometheus/model/value"
	"github.com/prometheus/prometheus/promql/parser"

	"verif/harness/mstore"
)

// F is a float64 that survives JSON (NaN, Inf, staleness marker).
type F float64

func (f F) MarshalJSON() ([]byte, error) {
	v := float64(f)
	switch {
	case value.IsStaleNaN(v):
		return []byte(`"stale"`), nil
	case math.IsNaN(v):
		return []byte(`"NaN"`), nil
	case math.IsInf(v, 1):
		return []byte(`"+Inf"`), nil
	case math.IsInf(v, -1):
		return []byte(`"-Inf"`), nil
	}
	return []byte(strconv.FormatFloat(v, 'g', -1, 64)), nil
}

func (f *F) UnmarshalJSON(b []byte) error {
	s := strings.Trim(string(b), `"`)
	switch s {
	case "stale":
		*f = F(math.Float64frombits(value.StaleNaN))
		return nil
	case "NaN":
		*f = F(math.NaN())
		return nil
	}
	v, err := strconv.ParseFloat(s, 64)
	if err != nil {
		return err
	}
	*f = F(v)
	return nil
}

var Stale = math.Float64frombits(value.StaleNaN)

// SeriesSpec is one stored series: labels in PromQL selector syntax and (t ms, v) pairs.
type SeriesSpec struct {
	L string `json:"l"`
	S []Pt   `json:"s"`
}

type Pt struct {
	T int64 `json:"t"`
	V F     `json:"v"`
}

func (p Pt) MarshalJSON() ([]byte, error) {
	v, _ := p.V.MarshalJSON()
	return []byte(fmt.Sprintf("[%d,%s]", p.T, v)), nil
}

func (p *Pt) UnmarshalJSON(b []byte) error {
	var raw []json.RawMessage
	if err := json.Unmarshal(b, &raw); err != nil || len(raw) != 2 {
		return fmt.Errorf("bad point %s", b)
	}
	if err := json.Unmarshal(raw[0], &p.T); err != nil {
		return err
	}
	return p.V.UnmarshalJSON(raw[1])
}

// Window in milliseconds. Step == 0 is an instant query at Start.
type Window struct {
	Start int64 `json:"start"`
	End   int64 `json:"end"`
	Step  int64 `json:"step"`
	// SubNs: nanoseconds (< 1e6) added to start, end and step when the query is created:
	// times handed to the engines need not be whole milliseconds; evaluation is on the
	// millisecond grid of the truncated values.
	SubNs [3]int64 `json:"sub_ns,omitempty"`
}

// SubMs returns w with sub-millisecond fractions on start, end and step.
func (w Window) SubMs(start, end, step int64) Window {
	w.SubNs = [3]int64{start, end, step}
	return w
}

func (w Window) Instant() bool { return w.Step == 0 }
func (w Window) NSteps() int {
	if w.Step == 0 {
		return 1
	}
	return int((w.End-w.Start)/w.Step) + 1
}
func Range(start, step int64, n int) Window {
	return Window{Start: start, End: start + step*int64(n-1), Step: step}
}
func Instant(t int64) Window { return Window{Start: t, End: t} }

type Opts struct {
	LookbackMs  int64  `json:"lookback_ms,omitempty"`  // engine-wide; 0 = default 5m
	QLookbackMs int64  `json:"qlookback_ms,omitempty"` // per query; 0 = unset
	Procs       int    `json:"procs,omitempty"`        // GOMAXPROCS; 0 = 4 (2 shards)
	Optimizers  string `json:"optimizers,omitempty"`   // "" default | none | all | any of "s","m","p"
	Fallback    bool   `json:"fallback,omitempty"`
	// Debug: the engine is given a DebugWriter (the plan of every created query is dumped).
	Debug bool `json:"debug,omitempty"`
	// RemoteNoFallback: the remote engines of a distributed case have fallback disabled
	// whatever Fallback says for the coordinator.
	RemoteNoFallback bool `json:"remote_no_fallback,omitempty"`
	Pool        string `json:"pool,omitempty"` // real | fresh | lifo | fifo
}

// Case is one self-contained execution.
type Case struct {
	Q      string         `json:"q"`
	Data   []SeriesSpec   `json:"data"`
	W      Window         `json:"w"`
	O      Opts           `json:"o"`
	Faults []mstore.Fault `json:"faults,omitempty"`
	// Dist, if set, assigns series i of Data to remote engine Dist[i] (C10).
	Dist  []int `json:"dist,omitempty"`
	NDist int   `json:"ndist,omitempty"`
	Note  string `json:"note,omitempty"`
	// ShareLabels: the storage hands out the very same label slices on every call (as a
	// TSDB head or promql.NewStorageSeries does); they are restored after the run.
	ShareLabels bool `json:"share_labels,omitempty"`
	// StoreCtx: the storage honours a cancelled context in every callback.
	StoreCtx bool `json:"store_ctx,omitempty"`
	// StoreOwnErr: with StoreCtx, the storage reports aborted calls with an error of its
	// own instead of the context's.
	StoreOwnErr bool `json:"store_own_err,omitempty"`
	// QCancel: a "cancel"/"block" fault cancels through the query object (Query.Cancel
	// called from a storage callback / from another goroutine while the callback is
	// blocked) instead of through the context given to Exec.
	QCancel bool `json:"qcancel,omitempty"`
	// QClose: like QCancel, through Query.Close (called while Exec is running).
	QClose bool `json:"qclose,omitempty"`
}

func (c *Case) Key() string {
	b, _ := json.Marshal(c)
	return string(b)
}

func ParseLabels(s string) (labels.Labels, error) {
	s = strings.TrimSpace(s)
	if s == "" || s == "{}" {
		return labels.Labels{}, nil
	}
	ms, err := parser.ParseMetricSelector(s)
	if err != nil {
		return nil, err
	}
	var l labels.Labels
	for _, m := range ms {
		if m.Type != labels.MatchEqual {
			return nil, fmt.Errorf("bad label spec %q", s)
		}
		if m.Value == "" {
			continue
		}
		l = append(l, labels.Label{Name: m.Name, Value: m.Value})
	}
	sort.Sort(l)
	return l, nil
}

func BuildStore(data []SeriesSpec) (*mstore.Store, error) {
	out := make([]mstore.Series, len(data))
	for i, d := range data {
		l, err := ParseLabels(d.L)
		if err != nil {
			return nil, err
		}
		out[i].Labels = l
		out[i].Samples = make([]mstore.Sample, len(d.S))
		for j, p := range d.S {
			out[i].Samples[j] = mstore.Sample{T: p.T, V: float64(p.V)}
		}
	}
	return mstore.New(out), nil
}

// ---------------------------------------------------------------------------------
// canonical results

type RPoint struct {
	T int64 `json:"t"`
	V F     `json:"v"`
}

type RSeries struct {
	Labels string   `json:"labels"`
	Points []RPoint `json:"points"`
}

type Result struct {
	Type   string    `json:"type"` // vector | matrix | scalar | string | none
	Err    string    `json:"err,omitempty"`
	Series []RSeries `json:"series,omitempty"`
	Dup    []string  `json:"dup,omitempty"` // label sets occurring more than once
	Str    string    `json:"str,omitempty"`
	// CreateErr is set when the query could not be created.
	CreateErr string `json:"create_err,omitempty"`
}

func (r *Result) Failed() bool { return r.Err != "" || r.CreateErr != "" }

func (r *Result) NPoints() int {
	n := 0
	for _, s := range r.Series {
		n += len(s.Points)
	}
	return n
}

func CanonLabels(l labels.Labels) string {
	c := l.Copy()
	sort.Sort(c)
	return c.String()
}

func (r *Result) sortSeries() {
	sort.SliceStable(r.Series, func(i, j int) bool { return r.Series[i].Labels < r.Series[j].Labels })
	for i := 1; i < len(r.Series); i++ {
		if r.Series[i].Labels == r.Series[i-1].Labels {
			if len(r.Dup) == 0 || r.Dup[len(r.Dup)-1] != r.Series[i].Labels {
				r.Dup = append(r.Dup, r.Series[i].Labels)
			}
		}
	}
}

func (r *Result) String() string {
	b, _ := json.Marshal(r)
	if len(b) > 1500 {
		return string(b[:1500]) + "..."
	}
	return string(b)
}

// ValEq: both NaN, same Inf, or relative 1e-9.
func ValEq(a, b float64) bool {
	if math.IsNaN(a) || math.IsNaN(b) {
		return math.IsNaN(a) && math.IsNaN(b)
	}
	if math.IsInf(a, 0) || math.IsInf(b, 0) {
		return a == b
	}
	if a == b {
		return true
	}
	d := math.Abs(a - b)
	m := math.Max(1, math.Max(math.Abs(a), math.Abs(b)))
	return d <= 1e-9*m
}

func ValEqExact(a, b float64) bool {
	if math.IsNaN(a) || math.IsNaN(b) {
		return math.IsNaN(a) && math.IsNaN(b)
	}
	return a == b
}

// Diff compares two canonical results. It returns "" when they agree, otherwise a
// symptom class and a human-readable detail. exact demands bit-equal values.
func Diff(ref, got *Result, exact bool) (symptom, detail string) {
	rf, gf := ref.Failed(), got.Failed()
	if rf && gf {
		return "", ""
	}
	if rf && !gf {
		return "err:engine-ok/ref-err:" + RefErrClass(ref.Err+ref.CreateErr), "reference: " + ref.Err + ref.CreateErr
	}
	if !rf && gf {
		return "err:engine-err/ref-ok", "engine: " + got.Err + got.CreateErr
	}
	if ref.Type != got.Type {
		return "type", fmt.Sprintf("ref %s, engine %s", ref.Type, got.Type)
	}
	if ref.Type == "string" {
		if ref.Str != got.Str {
			return "value", "string differs"
		}
		return "", ""
	}
	if len(got.Dup) > 0 && len(ref.Dup) == 0 {
		return "dup-labelset", "engine returned duplicate label set " + got.Dup[0]
	}
	eq := ValEq
	if exact {
		eq = ValEqExact
	}
	i, j := 0, 0
	for i < len(ref.Series) || j < len(got.Series) {
		switch {
		case j >= len(got.Series) || (i < len(ref.Series) && ref.Series[i].Labels < got.Series[j].Labels):
			// label-only difference?
			return classifyMissing(ref, got, i), "missing series " + ref.Series[i].Labels
		case i >= len(ref.Series) || ref.Series[i].Labels > got.Series[j].Labels:
			return classifyExtra(ref, got, j), "extra series " + got.Series[j].Labels
		}
		a, b := ref.Series[i], got.Series[j]
		x, y := 0, 0
		for x < len(a.Points) || y < len(b.Points) {
			switch {
			case y >= len(b.Points) || (x < len(a.Points) && a.Points[x].T < b.Points[y].T):
				return "missing-points", fmt.Sprintf("%s: reference has T=%d, engine does not", a.Labels, a.Points[x].T)
			case x >= len(a.Points) || a.Points[x].T > b.Points[y].T:
				return "extra-points", fmt.Sprintf("%s: engine has T=%d, reference does not", a.Labels, b.Points[y].T)
			}
			if !eq(float64(a.Points[x].V), float64(b.Points[y].V)) {
				return "value", fmt.Sprintf("%s T=%d: reference %v, engine %v", a.Labels, a.Points[x].T, float64(a.Points[x].V), float64(b.Points[y].V))
			}
			x++
			y++
		}
		i++
		j++
	}
	return "", ""
}

// When the two sides have the same number of series with the same points but under
// different label sets, the symptom is "labels".
func samePointsModuloLabels(ref, got *Result) bool {
	if len(ref.Series) != len(got.Series) {
		return false
	}
	key := func(s RSeries) string {
		var sb strings.Builder
		for _, p := range s.Points {
			fmt.Fprintf(&sb, "%d:%x;", p.T, math.Float64bits(float64(p.V)))
		}
		return sb.String()
	}
	m := map[string]int{}
	for _, s := range ref.Series {
		m[key(s)]++
	}
	for _, s := range got.Series {
		m[key(s)]--
	}
	for _, v := range m {
		if v != 0 {
			return false
		}
	}
	return true
}

func classifyMissing(ref, got *Result, i int) string {
	if samePointsModuloLabels(ref, got) {
		return "labels"
	}
	return "missing-series"
}

func classifyExtra(ref, got *Result, j int) string {
	if samePointsModuloLabels(ref, got) {
		return "labels"
	}
	return "extra-series"
}

// RefErrClass buckets the reference engine's error messages (only the class is
// compared, messages embed map-order-dependent text).
func RefErrClass(msg string) string {
	switch {
	case strings.Contains(msg, "many-to-one matching must be explicit"):
		return "many-to-one"
	case strings.Contains(msg, "found duplicate series for the match group"):
		return "dup-series"
	case strings.Contains(msg, "grouping labels must ensure unique matches"):
		return "grouping-unique"
	case strings.Contains(msg, "overflows int64"):
		return "k-overflow"
	case strings.Contains(msg, "same labelset"):
		return "same-labelset"
	case strings.Contains(msg, "mstore: injected"):
		return "injected"
	}
	return "other"
}
