chk("C11", "bounded exhaustive schedule exploration (deviation-bounded DFS under a cooperative scheduler) of the real engine",
    "Every goroutine interleaving with at most D scheduling deviations (D per scenario in evidence.coverage.bounds) of 17 small drivers crossing each concurrency seam is executed on the real engine; each must return the default schedule's result with no deadlock, leak or goroutine-top panic.",
    "Small scope: <=3 deviations, 2-5 series, <=31 steps; data races invisible to the cooperative scheduler.", "DESIGN.md §1.4, §4 C11", "E-SCHED")
