#!/bin/bash
# Tries a seeded change: applies a patch to a scratch worktree of /repo (outside /repo
# and /verif, removed afterwards), runs the given checks on it through VERIF_REPO,
# prints one line per check (exit code and the first VIOLATION line).  /repo itself is
# not touched, so a long run on /repo can go on meanwhile.  IN_REPO=1 applies the patch
# to /repo instead (the documented procedure; needs a clean tree and restores it).
# usage: tools/seedtest.sh <patch.diff> <PROP> [<PROP> ...]
set -u
patch=$(readlink -f "$1"); shift
cd /verif
if [ "${IN_REPO:-0}" = 1 ]; then
  if ! git -C /repo diff --quiet; then echo "/repo has uncommitted changes; refusing"; exit 2; fi
  git -C /repo apply "$patch" || { echo "patch does not apply"; exit 2; }
  trap 'git -C /repo checkout -q -- . ; git -C /repo clean -fdq' EXIT
else
  wt=$(mktemp -d /tmp/seedwt-XXXXXX); rmdir "$wt"
  git -C /repo worktree add -q --detach "$wt" HEAD || exit 2
  trap 'git -C /repo worktree remove --force "$wt"' EXIT
  git -C "$wt" apply "$patch" || { echo "patch does not apply"; exit 2; }
  export VERIF_REPO=$wt
fi
for p in "$@"; do
  out=$(timeout 900 ./bin/vcheck run "$p" --tier "${TIER:-quick}" 2>&1); rc=$?
  v=$(echo "$out" | grep -m1 '^VIOLATION' | cut -c1-260)
  s=$(echo "$out" | tail -1 | cut -c1-200)
  echo "$p exit=$rc :: ${v:-no violation} :: $s"
done
