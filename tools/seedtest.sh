#!/bin/bash
# Applies a patch to /repo, runs the given checks (quick tier), prints one line per
# check (exit code and the first VIOLATION line), and restores /repo.
# usage: tools/seedtest.sh <patch.diff> <PROP> [<PROP> ...]
set -u
patch=$1; shift
cd /verif
if ! git -C /repo diff --quiet; then echo "/repo has uncommitted changes; refusing"; exit 2; fi
git -C /repo apply "$patch" || { echo "patch does not apply"; exit 2; }
trap 'git -C /repo checkout -q -- . ; git -C /repo clean -fdq' EXIT
for p in "$@"; do
  out=$(timeout 900 ./bin/vcheck run "$p" --tier "${TIER:-quick}" 2>&1); rc=$?
  v=$(echo "$out" | grep -m1 '^VIOLATION' | cut -c1-260)
  s=$(echo "$out" | tail -1 | cut -c1-200)
  echo "$p exit=$rc :: ${v:-no violation} :: $s"
done
