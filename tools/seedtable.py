#!/usr/bin/env python3
"""Regenerates DESIGN.md §0.5 (seeded changes) from seeded/*/meta.json."""
import json,glob,re
rows=[]
for f in sorted(glob.glob('/verif/seeded/*/meta.json')):
    m=json.load(open(f))
    rows.append("| %s | %s | %s | %s | %s |"%(m['id'],m['breaks_property'],m['needs_to_manifest'].replace('|','\\|'),'; '.join(m['caught_by']).replace('|','\\|'),m['missed_at_first'].replace('|','\\|')))
table="""### 0.5 Seeded property-breaking changes and the checks that catch them

Each change was written by a fresh sub-agent that saw only the text of one property and
its own scratch worktree (nothing from /verif). I confirmed each one myself in that
worktree (it compiles, the pinned suite passes with it, its demonstration fails with it
and passes without it) before keeping it under `seeded/<id>/` (patch.diff, the
demonstration, notes, meta.json). `tools/seedtest.sh <patch> <props>` applies a patch to a
scratch worktree of /repo (or, with IN_REPO=1, to /repo itself), runs the quick checks on
it and removes it; `tools/seedregress.sh` re-tries every kept seed. "Missed at first"
records what the seed taught me: every miss was turned into a strengthening of the check,
never into an excuse.

What the """+str(len(rows))+""" seeds say about the technique: an exhaustive search is only as good as its
alphabet. Roughly two seeds in five were missed by the check of their property when they
arrived (most were caught by a neighbouring check), nearly always because one value was
absent from an alphabet - GOMAXPROCS 1, an ordinary NaN, a label name that sorts before
`__name__`, a window that is not a whole number of milliseconds, `Query.Close` as the
cancellation, a distributed engine under the check at all - and three times because of
the machinery itself (canonical printing hid matcher order, a known finding was scoped
wider than its defect, a worker death was filed as a harness error). Each miss widened an
alphabet for every later run, and the side notes of the seed authors led to eight of the
defects repaired in §0.1 (X34, X36-X39, X41, and the two found while widening: X35, X40).
The older seeds are re-tried after every round of changes (`seeds missed: 0` each time).

| seed | breaks | needs in order to manifest | caught by | missed at first? |
|---|---|---|---|---|
"""+"\n".join(rows)+"\n\n"
s=open('/verif/DESIGN.md').read()
if '### 0.5 Seeded' in s:
    a=s.index('### 0.5 Seeded'); b=s.index('---------------------------------------------------------------------------------------\n\n## 1. Architecture')
    s=s[:a]+table+s[b:]
else:
    b=s.index('---------------------------------------------------------------------------------------\n\n## 1. Architecture')
    s=s[:b]+table+s[b:]
open('/verif/DESIGN.md','w').write(s)
print(len(rows),'seeds')
