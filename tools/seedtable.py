#!/usr/bin/env python3
"""Regenerates DESIGN.md §0.5 (seeded changes) from seeded/*/meta.json."""
import json,glob,re
rows=[]
for f in sorted(glob.glob('/verif/seeded/*/meta.json')):
    m=json.load(open(f))
    rows.append("| %s | %s | %s | %s | %s |"%(m['id'],m['breaks_property'],m['needs_to_manifest'].replace('|','\\|'),'; '.join(m['caught_by']).replace('|','\\|'),m['missed_at_first'].replace('|','\\|')))
table="""### 0.5 Seeded property-breaking changes and the checks that catch them

Each change was written by a fresh sub-agent that saw only the text of one property and
its own scratch worktree (nothing from /verif). I confirmed each one myself in that
worktree (it compiles, the pinned suite passes with it, its demonstration fails with it
and passes without it) before keeping it under `seeded/<id>/` (patch.diff, the
demonstration, notes, meta.json). `tools/seedtest.sh <patch> <props>` applies a patch to
/repo, runs the quick checks and restores /repo. "Missed at first" records what the
seed taught me: every miss was turned into a strengthening of the check, never into an
excuse.

| seed | breaks | needs in order to manifest | caught by | missed at first? |
|---|---|---|---|---|
"""+"\n".join(rows)+"\n\n"
s=open('/verif/DESIGN.md').read()
if '### 0.5 Seeded' in s:
    a=s.index('### 0.5 Seeded'); b=s.index('---------------------------------------------------------------------------------------\n\n## 1. Architecture')
    s=s[:a]+table+s[b:]
else:
    b=s.index('---------------------------------------------------------------------------------------\n\n## 1. Architecture')
    s=s[:b]+table+s[b:]
open('/verif/DESIGN.md','w').write(s)
print(len(rows),'seeds')
