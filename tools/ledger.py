#!/usr/bin/env python3
"""Regenerates the tables of DESIGN.md §0.1 (fixed defects) and §0.2 (open findings)
from findings/known_findings.json."""
import json,re
d=json.load(open('/verif/findings/known_findings.json'))
s=open('/verif/DESIGN.md').read()
fx="| id | property | commit | defect (witness) |\n|---|---|---|---|\n"+"\n".join("| %s | %s | %s | %s |"%(f['id'],f['property'],f.get('commit',''),f['what_failed'].replace('|','\\|')) for f in d['fixed'])+"\n"
op="| id | properties | finding | scope -> symptom |\n|---|---|---|---|\n"+"\n".join("| %s | %s | %s | %s -> %s |"%(f['id'],', '.join([f['property']]+f.get('also',[])),f['title'].replace('|','\\|'),'+'.join('`%s`'%x for x in f['scope'])+((' not '+'+'.join('`%s`'%x for x in f['not_scope'])) if f.get('not_scope') else ''),', '.join(f['symptom']).replace('|','\\|')) for f in d['findings'])+"\n"
def repl(s,start_marker,end_marker,table):
    a=s.index(start_marker); a=s.index('| id |',a); b=s.index(end_marker,a)
    return s[:a]+table+"\n"+s[b:]
s=repl(s,'### 0.1 Genuine defects repaired','### 0.2 Genuine defects recorded',fx)
s=repl(s,'### 0.2 Genuine defects recorded','### 0.3 False alarms',op)
open('/verif/DESIGN.md','w').write(s)
print(len(d['fixed']),'fixed',len(d['findings']),'open')
