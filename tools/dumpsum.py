#!/usr/bin/env python3
import json,sys,glob,collections,re
pat=sys.argv[1] if len(sys.argv)>1 else '/tmp/dump.*'
maxn=int(sys.argv[2]) if len(sys.argv)>2 else 80
cnt=collections.Counter(); ex={}
def norm(d):
    d=re.sub(r'T=\d+','T=#',d); d=re.sub(r'-?\d+(\.\d+)?(e[+-]?\d+)?','#',d)
    return d[:70]
total=0
for f in glob.glob(pat):
    for ln in open(f):
        v=json.loads(ln); total+=1
        k=v['symptom']+' | '+norm(v['detail'])
        cnt[k]+=1
        c=v.get('case') or {}
        ex.setdefault(k,[])
        if len(ex[k])<4: ex[k].append('%s  [%s %s %s]'%(c.get('q'),c.get('note'),c.get('w'),c.get('o')))
print('total',total)
for k,n in cnt.most_common(maxn):
    print(n,k)
    for q in ex[k]: print('      ',q)
