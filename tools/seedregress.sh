#!/bin/bash
# Re-tries every kept seeded change (seeded/<id>/patch.diff) on a scratch worktree against
# the checks recorded as catching it; prints one line per seed and a summary.
# usage: tools/seedregress.sh [<seed-id> ...]
cd /verif
ids=("$@"); [ ${#ids[@]} -eq 0 ] && ids=($(ls seeded))
miss=0
for id in "${ids[@]}"; do
  d=/verif/seeded/$id
  props=$(python3 -c "
import json
m=json.load(open('$d/meta.json'))
import re
print(' '.join(sorted({t for c in m['caught_by'] for t in re.findall(r'C[0-9][0-9]', c.split('/')[0])})))")
  if ! git -C /repo apply --check $d/patch.diff 2>/dev/null; then echo "$id: patch no longer applies (skipped)"; continue; fi
  out=$(tools/seedtest.sh $d/patch.diff $props 2>&1 | grep -v "WARNING conda")
  bad=$(echo "$out" | grep -c "exit=0")
  if [ "$bad" != 0 ]; then miss=$((miss+1)); echo "$id: MISSED by: $(echo "$out" | grep 'exit=0' | cut -d' ' -f1 | tr '\n' ' ')"; else echo "$id: caught by $props"; fi
done
echo "seeds missed: $miss"
