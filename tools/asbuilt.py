#!/usr/bin/env python3
"""Regenerates DESIGN.md §0.6 (what each check explores, as built) from MANIFEST.json
and the evidence files of the last quick run."""
import json,os
m=json.load(open('/verif/MANIFEST.json'))
rows=[]
for c in m['checks']:
    pid=c['property_id']
    ev={}
    p='/verif/evidence/%s.json'%pid
    if os.path.exists(p): ev=json.load(open(p))
    cov=ev.get('coverage',{})
    subs=', '.join('%s (%s)'%(s['name'],s['mode']) for s in cov.get('sub_checks',[]))
    rows.append("| %s | %s | %s | %s | %s |"%(pid,subs,'{:,} / {:,}'.format(cov.get('states',0),cov.get('transitions',0)),cov.get('distinct_outcomes',''),c['level_claimed']['text'].replace('|','\\|')))
table="""### 0.6 What each check explores, as built

Sub-check modes: *free* = explicit-state enumeration, every state executed by the real
engine free-running (E-ENUM); *controlled* = schedule exploration under the cooperative
scheduler (E-SCHED); *race* = free-running `-race` build (dynamic analysis, C12 only).
States / transitions are those of the last quick run on this tree (the evidence files
are rewritten by every run; thorough bounds are in the descriptions).

| id | sub-checks | states / transitions (quick) | distinct outcomes | what is explored and what the oracle is |
|---|---|---|---|---|
"""+"\n".join(rows)+"\n\n"
s=open('/verif/DESIGN.md').read()
marker='---------------------------------------------------------------------------------------\n\n## 1. Architecture'
if '### 0.6 What each check explores' in s:
    a=s.index('### 0.6 What each check explores'); b=s.index(marker)
    s=s[:a]+table+s[b:]
else:
    b=s.index(marker); s=s[:b]+table+s[b:]
open('/verif/DESIGN.md','w').write(s)
print(len(rows))
