#!/usr/bin/env python3
"""Regenerates /verif/MANIFEST.json from the table below (kept in one place so that the
manifest stays valid while checks are added)."""
import json, sys

CHECKS = {}
def chk(pid, technique, text, note, design_ref, engine):
    CHECKS[pid] = dict(technique=technique, text=text, note=note, design_ref=design_ref, engine=engine)

exec(open('/verif/tools/manifest_table.py').read())

NOT_APPLICABLE = {}
allp = ["C%02d" % i for i in range(1, 21)]
m = {
 "version": 1,
 "setup_cmd": "./setup.sh",
 "hooks": {
  "guard": "verif",
  "enable": "no hook commits in /repo: /verif/instr rewrites the current sources into .build/<treehash>/src and injects the verifshim packages with `go build -overlay` (generated files carry the build constraint `verif || !verif`)",
  "baseline_off_cmd": "cd /repo && GOFLAGS=-mod=mod go test -vet=off -count=1 -timeout 25m ./...",
  "source_commits": [],
  "add_only": True
 },
 "engines": [
  {"name": "E-SCHED", "path": "harness/explore", "kind_free_text": "stateless DFS over goroutine schedules of the instrumented real engine under a cooperative scheduler, iterative deviation bounding, environment events (cancellation) enumerated as positions",
   "serves_properties": [p for p in allp if p in CHECKS and 'E-SCHED' in CHECKS[p]['engine']]},
  {"name": "E-ENUM", "path": "harness/checks", "kind_free_text": "explicit-state enumeration (BFS over grammar / data / window / fault-plan productions with canonical de-duplication) executing the real engine on every state against the reference Prometheus engine or a relational law",
   "serves_properties": [p for p in allp if p in CHECKS and 'E-ENUM' in CHECKS[p]['engine']]},
 ],
 "checks": [],
 "not_applicable": [],
 "notes": "All checks: ./bin/vcheck run <id> --tier quick|thorough. Exit 0 = held (possibly KNOWN-FINDING lines), 1 = VIOLATION, 2 = harness failure."
}
for p in allp:
    if p in CHECKS:
        c = CHECKS[p]
        m["checks"].append({
          "property_id": p,
          "quick_cmd": "./bin/vcheck run %s --tier quick" % p,
          "thorough_cmd": "./bin/vcheck run %s --tier thorough" % p,
          "evidence_file": "evidence/%s.json" % p,
          "replay_cmd_template": "./bin/vcheck replay {path}",
          "engine": c["engine"],
          "level_claimed": {"category": "model_checking", "text": c["text"], "design_ref": c["design_ref"]},
          "level_note": c["note"],
          "technique": c["technique"],
        })
    else:
        m["not_applicable"].append({"property_id": p, "reason": NOT_APPLICABLE.get(p, "check not built yet in this session; planned in DESIGN.md (will be claimed once its command exists)")})
json.dump(m, open('/verif/MANIFEST.json', 'w'), indent=1)
print("manifest:", len(m["checks"]), "checks,", len(m["not_applicable"]), "not applicable")
