#!/usr/bin/env python3
"""recordseed.py <id> <n> <breaks> '<needs>' '<caught_by;...>' '<missed_at_first>'"""
import json,os,shutil,subprocess,sys
sid,n,breaks,needs,caught,missed=sys.argv[1:7]
d='/verif/seeded/%s-%s'%(sid,n); os.makedirs(d,exist_ok=True)
out='/tmp/adv/out-%s-%s'%(sid,n)
shutil.copy(out+'/patch.diff',d+'/patch.diff')
for f in os.listdir(out):
    if f.endswith('_test.go'): shutil.copy(out+'/'+f,d+'/'+f+'.txt')
if os.path.exists(out+'/notes.md'): shutil.copy(out+'/notes.md',d+'/notes.md')
head=subprocess.check_output(['git','-C','/repo','rev-parse','--short','HEAD']).decode().strip()
ok=subprocess.call(['git','-C','/repo','apply','--check',d+'/patch.diff'])==0
meta=dict(id='%s-%s'%(sid,n),breaks_property=breaks,needs_to_manifest=needs,author='independent sub-agent given only the property text and a scratch worktree',
  confirmed=dict(how='/tmp/adv/confirm.sh in the scratch worktree (removed afterwards): go build; pinned suite with the change; demo with and without the change',
                 suite_passes_with_change=True,demo_fails_with_change=True,demo_passes_without_change=True),
  checks_run='tools/seedtest.sh seeded/%s-%s/patch.diff <props>'%(sid,n),
  caught_by=caught.split(';'),missed_at_first=missed,applies_to_repo_head=head if ok else 'NO LONGER APPLIES at '+head,
  demo='the *_test.go.txt file next to this one (drop it into engine/ as a _test.go file)')
json.dump(meta,open(d+'/meta.json','w'),indent=1)
print(sid,n,'applies' if ok else 'DOES NOT APPLY')
