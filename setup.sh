#!/bin/bash
# Builds the verification framework from files on disk only (offline).
set -e
cd "$(dirname "$0")"
export GOFLAGS=-mod=mod GOPROXY=off GOSUMDB=off GOTOOLCHAIN=local
mkdir -p bin evidence replays .build
cp /repo/go.sum harness/go.sum
(cd instr && go build -o ../bin/instr .)
(cd harness && go build -o ../bin/vcheck ./cmd/vcheck)
# instrument + build the current tree once (warms the build cache)
./bin/vcheck build
echo "setup done"
